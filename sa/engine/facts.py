"""Fact extraction and loading.

Runs the mirfacts driver (rustc_private, RUSTC_WORKSPACE_WRAPPER) under
`cargo +nightly check --offline` on /repo's current working tree, one fresh
scratch target directory per configuration, and loads the JSON fact files.
A missing or empty fact file is a broken check (exception), never a pass.
"""
import glob
import json
import os
import shutil
import subprocess
import tempfile
import time
from concurrent.futures import ThreadPoolExecutor

VERIF = os.path.dirname(os.path.dirname(os.path.dirname(os.path.abspath(__file__))))
REPO = os.environ.get("VERIF_REPO", "/repo")
DRIVER = os.path.join(VERIF, "sa", "mirfacts", "target", "release", "mirfacts")

A_FEATURES = "threaded,symbols,executable,global-allocator,cli"
CONFIGS = {
    # everything: threads, allocator behind the Mutex, start, env, aux, vdso, mem symbols
    "A": ["-p", "tiny-std", "--features", A_FEATURES],
    # what the tests build (default features; process without `start`)
    "B": ["--workspace"],
    # single-threaded allocator, no alloc
    "C": ["-p", "tiny-std", "--no-default-features", "--features", "global-allocator"],
    # derived parsers, macro-expanded
    "D": ["-p", "tiny-cli", "--tests"],
    # derived parsers for the /verif-owned shape corpus (sa/shapes/*.rs), added as extra integration-test targets to a scratch
    # COPY of the tree under analysis (the repository itself is not touched)
    "S": ["-p", "tiny-cli", "--tests"],
    # release MIR (no debug assertions)
    "R": ["-p", "tiny-std", "--features", A_FEATURES, "--release"],
    # aarch64 arms
    "X": ["-p", "tiny-std", "--features", "threaded,symbols,executable,global-allocator",
          "--target", "aarch64-unknown-linux-gnu", "-Zbuild-std=core,alloc"],
}
EXPECTED_CRATES = {
    "A": {"rusl", "tiny_start", "tiny_std"},
    "B": {"rusl", "tiny_start", "tiny_std", "tiny_cli"},
    "C": {"rusl", "tiny_std"},
    "D": {"rusl", "tiny_std", "tiny_cli", "derive_test"},
    "S": {"rusl", "tiny_std", "tiny_cli", "derive_test", "verif_shapes"},
    "R": {"rusl", "tiny_start", "tiny_std"},
    "X": {"rusl", "tiny_start", "tiny_std"},
}


class FactsError(Exception):
    pass


def _sysroot():
    return subprocess.check_output(["rustc", "+nightly", "--print", "sysroot"], text=True).strip()


def ensure_driver():
    if not os.path.exists(DRIVER):
        raise FactsError(f"driver not built: {DRIVER} (run ./setup.sh)")


def extract(config, repo=None):
    """Run the driver for one configuration; return list of crate fact dicts."""
    ensure_driver()
    repo = repo or REPO
    scratch = tempfile.mkdtemp(prefix=f"verif-sa-{config}-")
    try:
        out = os.path.join(scratch, "facts")
        os.makedirs(out)
        env = dict(os.environ)
        env.update({
            "LD_LIBRARY_PATH": os.path.join(_sysroot(), "lib"),
            "RUSTFLAGS": "-Zmir-opt-level=0 -Awarnings",
            "RUSTC_WORKSPACE_WRAPPER": DRIVER,
            "MIRFACTS_OUT": out,
            "MIRFACTS_CONFIG": config,
            "CARGO_TARGET_DIR": os.path.join(scratch, "target"),
            "CARGO_NET_OFFLINE": "true",
        })
        env.pop("RUSTC_WRAPPER", None)
        if config == "S":
            copy = os.path.join(scratch, "repo")
            subprocess.run(["rsync", "-a", "--exclude", "target", "--exclude", ".git", repo.rstrip("/") + "/", copy + "/"], check=True)
            for f in sorted(glob.glob(os.path.join(VERIF, "sa", "shapes", "*.rs"))):
                shutil.copy(f, os.path.join(copy, "tiny-cli", "tests", os.path.basename(f)))
            repo = copy
        cmd = ["cargo", "+nightly", "check", "--offline", "--quiet"] + CONFIGS[config]
        t0 = time.time()
        p = subprocess.run(cmd, cwd=repo, env=env, stdout=subprocess.PIPE, stderr=subprocess.STDOUT, text=True)
        if p.returncode != 0:
            raise FactsError(f"config {config}: cargo check failed:\n{p.stdout[-4000:]}")
        crates = []
        for f in sorted(glob.glob(os.path.join(out, "*.json"))):
            if os.path.getsize(f) == 0:
                raise FactsError(f"empty facts file {f}")
            with open(f) as fh:
                d = json.load(fh)
            d["_config"] = config
            crates.append(d)
        got = {c["crate"] for c in crates}
        missing = EXPECTED_CRATES[config] - got
        if missing:
            raise FactsError(f"config {config}: no facts for crates {sorted(missing)} (got {sorted(got)})")
        return crates, time.time() - t0
    finally:
        shutil.rmtree(scratch, ignore_errors=True)


def extract_many(configs, repo=None):
    """Extract several configurations in parallel. Returns {config: Program}."""
    res = {}
    with ThreadPoolExecutor(max_workers=max(1, len(configs))) as ex:
        futs = {c: ex.submit(extract, c, repo) for c in configs}
        for c, f in futs.items():
            crates, secs = f.result()
            res[c] = Program(c, crates, secs)
    return res


class Program:
    """All crates of one configuration, with indexes."""

    def __init__(self, config, crates, secs=0.0):
        self.config = config
        self.secs = secs
        self.crates = {}
        self.fns = {}
        self.consts = {}
        self.adts = {}
        self.statics = {}
        self.impls = []
        self.global_asm = []
        self.fact_files = []
        for c in crates:
            name = c["crate"]
            key = name
            if c.get("is_test") and name in self.crates:
                key = name + "#test"
            # a lib compiled both plain and as test (config D builds tiny_cli only once; keep first)
            if key in self.crates:
                continue
            self.crates[key] = c
            self.fact_files.append(f"{name}[{config}{'#test' if c.get('is_test') else ''}]: {len(c['fns'])} fns")
            for fn in c["fns"]:
                fn["crate"] = name
                p = fn["path"]
                if p in self.fns:
                    # duplicates (e.g. multiple closures) keep first; record others with suffix
                    n = 2
                    while f"{p}#{n}" in self.fns:
                        n += 1
                    p = f"{p}#{n}"
                    fn["path"] = p
                self.fns[p] = fn
            self.consts.update(c["consts"])
            self.adts.update(c["adts"])
            self.statics.update(c["statics"])
            for i in c["impls"]:
                i["crate"] = name
                self.impls.append(i)
            for g in c["global_asm"]:
                g["crate"] = name
                self.global_asm.append(g)
        # field types come from type_of() and keep array lengths as written (`[u8; BUF_LEN]`): evaluate a named length through the
        # constant of that name in the ADT's own module (or crate), so that `[u8; 512]` and `[u8; BUF_LEN]` are one type
        import re as _re
        for apath, a in self.adts.items():
            for v in a.get("variants", []):
                for f_ in v.get("fields", []):
                    m = _re.fullmatch(r"\[(.+); ([A-Za-z_][A-Za-z0-9_:]*)\]", f_["ty"])
                    if not m or m.group(2).isdigit():
                        continue
                    nm = m.group(2).split("::")[-1]
                    mod = apath.rsplit("::", 1)[0]
                    cands = [cp for cp in self.consts if cp.endswith("::" + nm) and (cp.startswith(mod + "::") or cp.split("::")[0] == apath.split("::")[0])]
                    cands.sort(key=lambda cp: (not cp.startswith(mod + "::"), len(cp)))
                    val = self.consts[cands[0]].get("value") if cands else None
                    if isinstance(val, int):
                        f_["ty_written"] = f_["ty"]
                        f_["ty"] = f"[{m.group(1)}; {val}]"
        # normalisation: helpers that are new relative to the pinned baseline are expanded at their call sites (see inline.py)
        self.expanded_helpers = []
        if os.environ.get("VERIF_NO_INLINE") != "1":
            from . import inline
            self.expanded_helpers = inline.normalise(self)

    # ------------------------------------------------------------------
    def fn(self, path):
        return self.fns.get(path)

    def find_fns(self, pred):
        return [f for f in self.fns.values() if pred(f)]

    def fns_matching(self, suffix):
        return [f for p, f in self.fns.items() if p.endswith(suffix)]

    def const(self, path):
        c = self.consts.get(path)
        return None if c is None else c.get("value")

    def crate_attrs(self, crate):
        return self.crates[crate]["crate_attrs_dbg"]

    def features(self, crate):
        return self.crates[crate]["features"]


class FnCtx:
    """Function + lazily built CFG / provenance, cached per Program."""

    def __init__(self, prog, fn):
        from .cfg import Cfg
        from .prov import Prov
        self.prog = prog
        self.fn = fn
        self.path = fn["path"]
        self.cfg = Cfg(fn)
        self.prov = Prov(fn, self.cfg)

    def term_at(self, bb):
        b = self.cfg.block(bb)
        return (bb, len(b["stmts"]))

    def args(self, bb):
        """Provenance expressions of the call arguments at block bb."""
        t = self.cfg.term(bb)
        at = self.term_at(bb)
        return [self.prov.operand(a, at) for a in t.get("args", [])]

    def site(self, bb):
        from .cfg import span_str
        sp = self.cfg.term(bb).get("sp")
        if not sp or (sp.get("l") in (None, 0, 1) and not sp.get("m")):
            # goto/return terminators carry the function's dummy span: use the block's last statement instead
            st = self.cfg.block(bb)["stmts"]
            for s in reversed(st):
                if s.get("sp") and s["sp"].get("l", 0) > 1:
                    return span_str(s["sp"])
        return span_str(sp)

    def edge_facts(self, edge):
        from .conds import switch_edge_facts
        return switch_edge_facts(self.cfg, self.prov, self.prog, edge)

    def ret_expr(self):
        """Provenance of the returned value (_0) at each return block: {bb: expr}."""
        out = {}
        for rb in self.cfg.return_blocks():
            if rb in self.cfg.live_blocks():
                out[rb] = self.prov.place({"l": 0}, self.term_at(rb))
        return out


def _ctx(self, path_or_fn):
    fn = path_or_fn if isinstance(path_or_fn, dict) else self.fns.get(path_or_fn)
    if fn is None:
        return None
    cache = self.__dict__.setdefault("_ctx_cache", {})
    c = cache.get(fn["path"])
    if c is None:
        c = FnCtx(self, fn)
        cache[fn["path"]] = c
    return c


def _cg(self):
    from .callgraph import CallGraph
    if "_callgraph" not in self.__dict__:
        self.__dict__["_callgraph"] = CallGraph(self)
    return self.__dict__["_callgraph"]


Program.ctx = _ctx
Program.callgraph = _cg
