"""Obligation bookkeeping, evidence, known findings, violation files."""
import json
import os
import time

VERIF = os.path.dirname(os.path.dirname(os.path.dirname(os.path.abspath(__file__))))


class Checker:
    def __init__(self, pid, tier, seed=0):
        self.pid = pid
        self.tier = tier
        self.seed = seed
        self.t0 = time.time()
        self.obligations = []      # dicts
        self.by_key = {}
        self.notes = []
        self.floors = {}
        self.configs = []
        self.stats = {"functions_analysed": 0, "call_sites": 0}
        self.config = None
        self.explanation = ""
        self.rule_text = ""
        self.assumptions = []
        self.trusted = ["rustc type checking and MIR construction (nightly 1.97)",
                        "sa/mirfacts serialisation of MIR to JSON", "sa/engine CFG/dominator/provenance code"]
        self.fn_seen = set()
        self.extra = {}
        self.no_evidence = False

    # ------------------------------------------------------------------
    def set_config(self, prog):
        self.config = prog.config
        if prog.config not in self.configs:
            self.configs.append(prog.config)
            self.stats["functions_analysed"] += len(prog.fns)
            n = 0
            for f in prog.fns.values():
                for b in f["blocks"]:
                    if b["term"]["k"] == "call":
                        n += 1
            self.stats["call_sites"] += n
            self.extra.setdefault("fact_files", []).extend(prog.fact_files)

    def ob(self, rule, key, ok, site=None, detail="", fn=None, path=None):
        """Record one obligation. key identifies the instance (no line numbers)."""
        full = f"{rule}|{key}"
        o = self.by_key.get(full)
        if o is None:
            o = {"rule": rule, "key": full, "ok": True, "configs": [], "site": site, "detail": detail, "fn": fn}
            self.by_key[full] = o
            self.obligations.append(o)
        o["configs"].append(self.config)
        if not ok:
            if o["ok"]:
                o["site"] = site
                o["detail"] = detail
                o["path"] = path
            o["ok"] = False
            o.setdefault("bad_configs", []).append(self.config)
        return ok

    def floor(self, rule, name, found, expected_min):
        """Instance-count floor: fewer instances than confirmed by hand = broken anchor."""
        k = f"{rule}:{name}[{self.config}]"
        self.floors[k] = [expected_min, found]
        self.ob(rule, f"floor|{name}", found >= expected_min, site=None,
                detail=f"below-floor: rule {rule} expected at least {expected_min} instance(s) of '{name}', found {found} in config {self.config} — anchor must be re-confirmed")

    def anchor(self, rule, name, obj):
        self.ob(rule, f"anchor|{name}", obj is not None and obj != [] and obj != {}, site=None,
                detail=f"anchor-missing: '{name}' not found in config {self.config}")
        return obj

    def note(self, text):
        if text not in self.notes:
            self.notes.append(text)

    # ------------------------------------------------------------------
    def finish(self):
        known = load_known(self.pid)
        viol = [o for o in self.obligations if not o["ok"]]
        unlisted = []
        matched = []
        for v in viol:
            kf = known.get(v["key"])
            if kf is not None:
                matched.append(v)
                print(f"KNOWN-FINDING: property={self.pid} {v['key']} {kf.get('what', '')}")
            else:
                unlisted.append(v)
        stale = [k for k in known if k not in {v["key"] for v in viol}]
        for k in stale:
            self.note(f"stale known-finding entry (no longer matches anything): {k}")
        outdir = os.path.join(VERIF, "out", "violations")
        if self.no_evidence:
            outdir = os.path.join(VERIF, "out", f"scratch-{os.getpid()}")
        os.makedirs(outdir, exist_ok=True)
        n_rules = {}
        for o in self.obligations:
            r = n_rules.setdefault(o["rule"], [0, 0])
            r[0] += 1
            if o["ok"]:
                r[1] += 1
        for r in sorted(n_rules):
            print(f"  {r}: {n_rules[r][1]}/{n_rules[r][0]} obligations discharged")
        for i, v in enumerate(unlisted):
            p = os.path.join(outdir, f"{self.pid}-{i}.json")
            with open(p, "w") as fh:
                json.dump({"property": self.pid, "rule": v["rule"], "key": v["key"], "fn": v.get("fn"),
                           "site": v.get("site"), "detail": v.get("detail"), "path": v.get("path"),
                           "configs": v.get("bad_configs")}, fh, indent=1)
            print(f"  violated: {v['key']}  [configs {','.join(v.get('bad_configs') or [])}]\n    at {v.get('site')}: {v.get('detail')}")
            if v.get("path"):
                for line in v["path"][:12]:
                    print(f"      {line}")
            print(f"VIOLATION property={self.pid} replay={p}")
        for n in self.notes:
            print(f"  note: {n}")
        if self.no_evidence:
            import shutil
            shutil.rmtree(outdir, ignore_errors=True)
        else:
            self.write_evidence(viol, unlisted, matched)
        return 1 if unlisted else 0

    def write_evidence(self, viol, unlisted, matched):
        evals = sum(len(o["configs"]) for o in self.obligations)
        distinct = len([o for o in self.obligations if "|floor|" not in o["key"] and "|anchor|" not in o["key"]])
        samples = []
        seen_rules = set()
        for o in self.obligations:
            if o["rule"] in seen_rules and o["ok"]:
                continue
            seen_rules.add(o["rule"])
            samples.append({"rule": o["rule"], "key": o["key"], "site": o.get("site"),
                            "verdict": "discharged" if o["ok"] else "violated",
                            "detail": o.get("detail"), "configs": o["configs"]})
        cov = {
            "explanation": self.explanation,
            "obligations": len(self.obligations),
            "discharged": len([o for o in self.obligations if o["ok"]]),
            "evaluations": max(evals, 1),
            "distinct_nontrivial": distinct,
            "rule": self.rule_text or "distinct = distinct (rule id, instance key) pairs, the same site seen in several configurations counted once; floor/anchor obligations not counted as non-trivial",
            "samples": samples[:60],
            "configs": self.configs,
            "floors": self.floors,
            "known_findings_matched": [v["key"] for v in matched],
            "notes": self.notes,
            "checker_cmd": f"./check {self.pid} --tier {self.tier}",
            "trusted_base": self.trusted,
        }
        cov.update(self.stats)
        cov.update(self.extra)
        ev = {
            "property_id": self.pid,
            "tier": self.tier,
            "seed": self.seed,
            "level": "other",
            "coverage": cov,
            "assumptions": self.assumptions,
            "wall_s": round(time.time() - self.t0, 2),
            "violations": len(unlisted),
        }
        os.makedirs(os.path.join(VERIF, "evidence"), exist_ok=True)
        with open(os.path.join(VERIF, "evidence", f"{self.pid}.json"), "w") as fh:
            json.dump(ev, fh, indent=1)


def load_known(pid):
    p = os.path.join(VERIF, "known_findings.json")
    res = {}
    if not os.path.exists(p):
        return res
    with open(p) as fh:
        data = json.load(fh)
    for e in data.get("findings", []):
        if e.get("property") == pid and e.get("status") == "known":
            res[e["key"]] = e
    return res
