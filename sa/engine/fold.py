"""Symbolic constant folding over provenance expressions (K6 helper)."""
from .prov import strip_casts

MASK64 = (1 << 64) - 1


def fold_ip(prog, e, env=None):
    """fold(), but a call to a local parameterless const-like function (Flags::empty(), ...) is folded through its body."""
    v = fold(e, env)
    if v is not None:
        return v
    e2 = strip_casts(e)
    if isinstance(e2, tuple) and e2[0] == "call" and not e2[2] and e2[1] in prog.fns:
        c = prog.ctx(e2[1])
        rets = list(c.ret_expr().values())
        if len(rets) == 1:
            return fold(rets[0])
    if isinstance(e2, tuple) and e2[0] == "field":
        return fold_ip(prog, e2[1], env)
    return None


def fold(e, env=None, depth=0):
    """Return an int when e folds to a constant (given env: {param_index_or_name: int}), else None."""
    env = env or {}
    if depth > 30 or not isinstance(e, tuple):
        return None
    k = e[0]
    if k == "const":
        return e[1] if isinstance(e[1], int) else None
    if k == "cast":
        return fold(e[2], env, depth + 1)
    if k == "param":
        return env.get(e[1], env.get(e[2]))
    if k == "place":
        return env.get(e[1], env.get(e[2]))
    if k == "ref":
        return fold(e[2], env, depth + 1)
    if k == "deref":
        return fold(e[1], env, depth + 1)
    if k == "field":
        # newtype wrappers: .0 of a scalar newtype / .bits().0
        return fold(e[1], env, depth + 1)
    if k == "call":
        n = e[1] or ""
        if n.endswith(("::bits", "::into_raw", "::value", "::raw", "::into_u32", "::into_u64", "::into_usize", "::into_i32")):
            return fold(e[2][0], env, depth + 1) if e[2] else None
        return None
    if k == "agg" and len(e[3]) == 1 and e[1] not in ("array", "tuple"):
        # newtype wrapper around a scalar
        return fold(e[3][0], env, depth + 1)
    if k == "un":
        a = fold(e[2], env, depth + 1)
        if a is None:
            return None
        if e[1] == "Neg":
            return -a
        if e[1] == "Not":
            return ~a
        return None
    if k == "bin":
        op = e[1].replace("WithOverflow", "").replace("Unchecked", "")
        a = fold(e[2], env, depth + 1)
        b = fold(e[3], env, depth + 1)
        if op == "BitAnd" and (a == 0 or b == 0):
            return 0
        if op == "Mul" and (a == 0 or b == 0):
            return 0
        if a is None or b is None:
            return None
        try:
            return {
                "Add": lambda: a + b, "Sub": lambda: a - b, "Mul": lambda: a * b,
                "BitAnd": lambda: a & b, "BitOr": lambda: a | b, "BitXor": lambda: a ^ b,
                "Shl": lambda: a << b, "Shr": lambda: a >> b,
                "Div": lambda: a // b if b else None, "Rem": lambda: a % b if b else None,
            }[op]()
        except KeyError:
            return None
    return None
