"""K3: intra-procedural value provenance over MIR facts.

Expressions are nested tuples:
  ('const', value, path, ty) | ('fnref', path) | ('bytes', tuple)
  ('param', n, name)
  ('call', callee, (args...), bb)
  ('bin', op, a, b) | ('un', op, a) | ('cast', kind, a, ty)
  ('ref', mut, e) | ('addr', mut, e)       -- &place / &raw place, e = place expression
  ('field', e, name, adt) | ('deref', e) | ('downcast', e, variant) | ('index', e, i) | ('cindex', e, off, from_end)
  ('subslice', e, from, to, from_end)
  ('discr', e) | ('agg', adt_or_kind, variant, (ops...), (fieldnames...))
  ('phi', (e1, e2, ...)) | ('loop', local) | ('unknown', why) | ('local', n) for un-initialised/escaped
"""
from collections import defaultdict

MAX_DEPTH = 40


class Prov:
    def __init__(self, fn, cfg):
        self.fn = fn
        self.cfg = cfg
        self.argc = fn["argc"]
        self.names = {}
        for e in fn.get("names", []):
            p = e["p"]
            if "p" not in p:
                self.names.setdefault(p["l"], e["n"])
        self.local_ty = {l["id"]: l["ty"] for l in fn["locals"]}
        self.local_tk = {l["id"]: l.get("tk") for l in fn["locals"]}
        self._collect_defs()
        self._reaching = None

    # ------------------------------------------------------------------
    def _collect_defs(self):
        # def id = (bb, idx) idx == len(stmts) means terminator
        self.defs = defaultdict(list)       # key (local, None) or (local, fieldidx) -> [(bb, idx)]
        self.mut_borrowed = set()
        live = self.cfg.live_blocks()
        for b in self.fn["blocks"]:
            bid = b["id"]
            if bid not in live:
                continue
            for i, s in enumerate(b["stmts"]):
                if s["k"] == "assign":
                    self._note_def(s["dst"], (bid, i))
                    rv = s["rv"]
                    if rv["k"] in ("ref", "rawptr"):
                        m = rv["m"] if rv["k"] == "ref" else (rv["m"] == "Mut")
                        pl = rv["p"]
                        if m and not any(pe["k"] == "deref" for pe in pl.get("p", [])):
                            self.mut_borrowed.add(pl["l"])
                elif s["k"] == "setdiscr":
                    self._note_def(s["dst"], (bid, i))
            t = b["term"]
            n = len(b["stmts"])
            if t["k"] == "call":
                self._note_def(t["dst"], (bid, n))
            elif t["k"] == "asm":
                for op in t["operands"]:
                    if "place" in op:
                        self._note_def(op["place"], (bid, n))

    def _note_def(self, place, at):
        proj = place.get("p", [])
        if not proj:
            self.defs[(place["l"], None)].append(at)
        elif proj[0]["k"] == "field" and len(proj) == 1:
            self.defs[(place["l"], proj[0]["i"])].append(at)
        elif proj[0]["k"] == "deref":
            pass  # write through a pointer: not a def of the local
        else:
            # deeper partial write: treat as partial def of first-level field when possible
            if proj[0]["k"] == "field":
                self.defs[(place["l"], ("deep", proj[0]["i"]))].append(at)
            elif proj[0]["k"] == "downcast" and len(proj) >= 2 and proj[1]["k"] == "field":
                self.defs[(place["l"], ("deep", proj[1]["i"]))].append(at)
            else:
                self.defs[(place["l"], ("deep", None))].append(at)

    # ------------------------------------------------------------------
    def _ensure_field_key(self, fkey):
        """merge whole-local definitions into a field key's definition list (once)."""
        if not hasattr(self, "_own_field_defs"):
            self._own_field_defs = {}
        if fkey in self._own_field_defs:
            return
        self._own_field_defs[fkey] = list(self.defs[fkey])
        whole = self.defs.get((fkey[0], None), [])
        merged = list(self.defs[fkey]) + [d for d in whole if d not in self.defs[fkey]]
        self.defs[fkey] = merged
        self._reaching = None   # recompute with the merged lists

    def _compute_reaching(self):
        """Reaching definitions for keys with more than one def."""
        multi = {k for k, v in self.defs.items() if len(v) > 1 or (k[0] <= self.argc and k[0] != 0 and k[1] is None)}
        self.multi = multi
        gen = defaultdict(dict)   # bb -> key -> last def in block
        for k in multi:
            for (bb, idx) in self.defs[k]:
                cur = gen[bb].get(k)
                if cur is None or idx > cur[1]:
                    gen[bb][k] = (bb, idx)
        live = self.cfg.live_blocks()
        IN = {b: defaultdict(set) for b in live}
        # params: initial def is ('param')
        for k in multi:
            if k[1] is None and 1 <= k[0] <= self.argc:
                IN[0][k].add(("param", k[0]))
        work = list(self.cfg._rpo())
        inwork = set(work)
        while work:
            b = work.pop(0)
            inwork.discard(b)
            out = {}
            for k in multi:
                if k in gen[b]:
                    out[k] = {gen[b][k]}
                else:
                    out[k] = IN[b][k]
            for e in self.cfg.succ[b]:
                d = e.dst
                if d not in IN:
                    continue
                changed = False
                for k in multi:
                    before = len(IN[d][k])
                    IN[d][k] |= out[k]
                    if len(IN[d][k]) != before:
                        changed = True
                if changed and d not in inwork:
                    work.append(d)
                    inwork.add(d)
        self._reaching = IN

    def reaching(self, key, at):
        """Definitions of key (local, field|None) reaching program point at=(bb, idx) (before executing idx)."""
        ds = self.defs.get(key, [])
        if self._reaching is None:
            self._compute_reaching()
        if key not in self.multi:
            return list(ds)
        bb, idx = at
        # last def in this block before idx
        best = None
        for (dbb, didx) in ds:
            if dbb == bb and didx < idx and (best is None or didx > best[1]):
                best = (dbb, didx)
        if best is not None:
            return [best]
        return sorted(self._reaching.get(bb, {}).get(key, set()), key=str)

    # ------------------------------------------------------------------
    def operand(self, op, at, depth=0, seen=frozenset()):
        k = op["k"]
        if k == "const":
            if "fn" in op:
                return ("fnref", op["fn"])
            if "bytes" in op:
                return ("bytes", tuple(op["bytes"]))
            path = op.get("path")
            if op.get("static"):
                return ("static", op["static"], op.get("ty"))
            if op.get("refs"):
                # a promoted constant: name it after the named constants its body refers to
                path = "&" + "+".join(op["refs"])
            if op.get("mem") is not None:
                if op.get("ptrs"):
                    # pointers stored inside the constant's memory (e.g. a promoted `&&u8`): (offset, pointee bytes)
                    return ("const", op.get("value"), path, op.get("ty"), tuple(op["mem"]), tuple((e["off"], tuple(e["mem"])) for e in op["ptrs"]))
                return ("const", op.get("value"), path, op.get("ty"), tuple(op["mem"]))
            return ("const", op.get("value"), path, op.get("ty"))
        if k in ("copy", "move"):
            return self.place(op["p"], at, depth, seen)
        return ("unknown", op.get("dbg", k))

    def place(self, pl, at, depth=0, seen=frozenset()):
        l = pl["l"]
        proj = pl.get("p", [])
        # field-sensitive first: a field with its own assignments is defined by those AND by whole-local definitions
        if proj and proj[0]["k"] == "field" and (l, proj[0]["i"]) in self.defs and l not in self.mut_borrowed:
            fkey = (l, proj[0]["i"])
            self._ensure_field_key(fkey)
            ds = self.reaching(fkey, at)
            own = set(self._own_field_defs.get(fkey, ()))
            outs = []
            for d in ds:
                if d[0] == "param":
                    outs.append(self.apply_proj(("param", l, self.names.get(l, f"_{l}")), [proj[0]], at, depth, seen))
                elif d in own:
                    outs.append(self.def_expr(d, fkey, depth + 1, seen))
                else:
                    outs.append(self.apply_proj(self.def_expr(d, (l, None), depth + 1, seen), [proj[0]], at, depth, seen))
            uniq = []
            for o in outs:
                if o not in uniq:
                    uniq.append(o)
            if len(uniq) == 1:
                base = uniq[0]
            elif not uniq:
                base = self.apply_proj(self._local_key((l, None), at, depth, seen), [proj[0]], at, depth, seen)
            else:
                base = ("phi", tuple(uniq))
            rest = proj[1:]
        else:
            base = self._local_key((l, None), at, depth, seen)
            rest = proj
        return self.apply_proj(base, rest, at, depth, seen)

    def apply_proj(self, base, proj, at, depth, seen):
        e = base
        for pe in proj:
            k = pe["k"]
            if k == "deref":
                e = ("deref", e)
            elif k == "field":
                # simplify field-of-aggregate
                if e[0] == "agg" and e[1] != "array" and pe["i"] < len(e[3]):
                    e = e[3][pe["i"]]
                elif e[0] == "bin" and e[1].endswith("WithOverflow"):
                    if pe["i"] == 0:
                        e = ("bin", e[1][:-len("WithOverflow")], e[2], e[3])
                    else:
                        e = ("overflow", e[1][:-len("WithOverflow")], e[2], e[3])
                else:
                    e = ("field", e, pe.get("n", str(pe["i"])), pe.get("adt"))
            elif k == "downcast":
                e = ("downcast", e, pe["v"])
            elif k == "index":
                idx = self._local_key((pe["l"], None), at, depth + 1, seen)
                e = ("index", e, idx)
            elif k == "cindex":
                e = ("cindex", e, pe["off"], pe["from_end"])
            elif k == "subslice":
                e = ("subslice", e, pe["from"], pe["to"], pe["from_end"])
            else:
                e = ("unknown", "proj:" + k)
        return e

    def _local_key(self, key, at, depth, seen):
        l = key[0]
        if depth > MAX_DEPTH:
            return ("unknown", "depth")
        if l in self.mut_borrowed and l != 0:
            # mutably borrowed somewhere: its current content is not described by its definitions
            return ("place", l, self.names.get(l), self.local_ty.get(l))
        ds = self.reaching(key, at)
        if not ds:
            if key[1] is None and 1 <= l <= self.argc:
                return ("param", l, self.names.get(l, f"_{l}"))
            # only deep/partial defs?
            return ("local", l, self.names.get(l))
        if len(ds) > 1:
            # loop-carried / conditionally assigned variable: keep opaque, identified by its reaching defs
            return ("var", l, self.names.get(l), tuple(ds))
        outs = []
        for d in ds:
            if d[0] == "param":
                outs.append(("param", l, self.names.get(l, f"_{l}")))
                continue
            tag = (key, d)
            if tag in seen:
                outs.append(("loop", l, self.names.get(l)))
                continue
            outs.append(self.def_expr(d, key, depth + 1, seen | {tag}))
        # dedupe
        uniq = []
        for o in outs:
            if o not in uniq:
                uniq.append(o)
        if len(uniq) == 1:
            return uniq[0]
        return ("phi", tuple(uniq))

    def root_local(self, op):
        """Follow single-definition temporaries that are plain copies/moves back to the local they copy."""
        if op.get("k") not in ("copy", "move") or op["p"].get("p"):
            return None
        l = op["p"]["l"]
        for _ in range(8):
            ds = self.defs.get((l, None), [])
            if len(ds) != 1:
                return l
            bb, idx = ds[0]
            b = self.cfg.block(bb)
            if idx >= len(b["stmts"]):
                return l
            s = b["stmts"][idx]
            rv = s.get("rv", {})
            if s["k"] == "assign" and rv.get("k") == "use" and rv["a"].get("k") in ("copy", "move") and not rv["a"]["p"].get("p"):
                l = rv["a"]["p"]["l"]
                continue
            return l
        return l

    def expand(self, var):
        """One-level expansion of a ('var', l, name, defs) node: list of the defining expressions."""
        out = []
        for d in var[3]:
            if d[0] == "param":
                out.append(("param", var[1], var[2]))
            else:
                out.append(self.def_expr(d, (var[1], None), 0, frozenset()))
        return out

    def def_expr(self, d, key, depth, seen):
        bb, idx = d
        b = self.cfg.block(bb)
        if idx < len(b["stmts"]):
            s = b["stmts"][idx]
            if s["k"] == "assign":
                return self.rvalue(s["rv"], d, depth, seen)
            return ("unknown", "setdiscr")
        t = b["term"]
        if t["k"] == "call":
            if t.get("const_result") is not None:
                return ("const", t["const_result"], (t.get("callee") or "") + "::<" + str(t.get("generic", "")) + ">", "usize")
            args = tuple(self.operand(a, d, depth + 1, seen) for a in t["args"])
            return ("call", call_name(t), args, bb)
        if t["k"] == "asm":
            return ("asm", bb)
        return ("unknown", "term:" + t["k"])

    def rvalue(self, rv, at, depth=0, seen=frozenset()):
        k = rv["k"]
        if k == "use":
            return self.operand(rv["a"], at, depth, seen)
        if k == "binop":
            return ("bin", rv["op"], self.operand(rv["a"], at, depth + 1, seen), self.operand(rv["b"], at, depth + 1, seen))
        if k == "unop":
            return ("un", rv["op"], self.operand(rv["a"], at, depth + 1, seen))
        if k == "cast":
            return ("cast", rv["ck"], self.operand(rv["a"], at, depth + 1, seen), rv["ty"])
        if k == "ref":
            if not rv["m"] and rv["p"]["l"] not in self.mut_borrowed:
                # shared borrow: the referent's value is what matters to the rules
                return ("ref", False, self.place(rv["p"], at, depth + 1, seen))
            return ("ref", rv["m"], self.place_expr(rv["p"], at, depth, seen))
        if k == "rawptr":
            pty = rv["p"].get("ty") or self.local_ty.get(rv["p"]["l"])
            return ("addr", rv["m"] == "Mut", self.place_expr(rv["p"], at, depth, seen), pty)
        if k == "discr":
            return ("discr", self.place(rv["p"], at, depth + 1, seen))
        if k == "agg":
            ops = tuple(self.operand(o, at, depth + 1, seen) for o in rv["ops"])
            ak = rv["ak"]
            if ak == "adt":
                return ("agg", rv["adt"], rv["variant"], ops, tuple(rv.get("fields", [])))
            return ("agg", ak, rv.get("closure"), ops, ())
        if k == "repeat":
            return ("repeat", self.operand(rv["a"], at, depth + 1, seen), rv["n"])
        if k == "tlsref":
            return ("tls", rv["path"])
        return ("unknown", rv.get("dbg", k))

    def place_expr(self, pl, at, depth, seen):
        """Expression for a place used as an lvalue (for & / &raw): keeps the root local symbolic
        unless the path starts with a deref (then the pointer value is resolved)."""
        proj = pl.get("p", [])
        l = pl["l"]
        if proj and proj[0]["k"] == "deref":
            base = self._local_key((l, None), at, depth + 1, seen)
            return self.apply_proj(base, proj, at, depth, seen)
        base = ("place", l, self.names.get(l), self.local_ty.get(l))
        return self.apply_proj(base, proj, at, depth, seen)


LOCAL_CRATES = ("tiny_std", "rusl", "tiny_start", "tiny_cli", "derive_test", "fixtures")


def call_name(t):
    """Name used for a call in expressions: the resolved impl when it is a local-crate function, else the declared callee
    (so std trait calls keep their trait path, e.g. core::ops::try_trait::Try::branch)."""
    r = t.get("resolved")
    c = t.get("callee")
    if r and (r.startswith(LOCAL_CRATES) or r.startswith(tuple("<" + x for x in LOCAL_CRATES))):
        return r
    return c or r or "<indirect>"


# ----------------------------------------------------------------------
# helpers over expression trees

def walk(e):
    """Yield all sub-expressions (pre-order)."""
    stack = [e]
    while stack:
        x = stack.pop()
        if not isinstance(x, tuple) or not x or not isinstance(x[0], str):
            continue
        yield x
        if x[0] == "var":
            continue
        for c in x[1:]:
            if isinstance(c, tuple):
                if c and isinstance(c[0], str):
                    stack.append(c)
                else:
                    for cc in c:
                        if isinstance(cc, tuple):
                            stack.append(cc)


def strip_casts(e):
    while isinstance(e, tuple) and e and e[0] == "cast":
        e = e[2]
    return e


def const_value(e):
    e = strip_casts(e)
    if isinstance(e, tuple) and e[0] == "const":
        return e[1]
    return None


def contains_call(e, name_sub):
    for x in walk(e):
        if x[0] == "call" and name_sub in (x[1] or ""):
            return True
    return False


def show(e, depth=0):
    """Compact human rendering."""
    if not isinstance(e, tuple):
        return str(e)
    if depth > 8:
        return "…"
    k = e[0]
    if k == "const":
        return f"{e[2].split('::')[-1]}={e[1]}" if e[2] else str(e[1])
    if k == "fnref":
        return f"fn {e[1]}"
    if k == "bytes":
        try:
            return 'b"' + bytes(e[1]).decode("latin1")[:24] + '"'
        except Exception:
            return "bytes"
    if k == "param":
        return f"{e[2]}"
    if k == "call":
        short = e[1].split("::")[-1] if e[1] else "?"
        return f"{short}({', '.join(show(a, depth+1) for a in e[2])})"
    if k == "bin":
        return f"({show(e[2], depth+1)} {e[1]} {show(e[3], depth+1)})"
    if k == "un":
        return f"{e[1]}({show(e[2], depth+1)})"
    if k == "cast":
        return f"({show(e[2], depth+1)} as {e[3]})"
    if k == "ref":
        return f"&{'mut ' if e[1] else ''}{show(e[2], depth+1)}"
    if k == "addr":
        return f"&raw {show(e[2], depth+1)}"
    if k == "field":
        return f"{show(e[1], depth+1)}.{e[2]}"
    if k == "deref":
        return f"*{show(e[1], depth+1)}"
    if k == "downcast":
        return f"({show(e[1], depth+1)} as {e[2]})"
    if k == "index":
        return f"{show(e[1], depth+1)}[{show(e[2], depth+1)}]"
    if k == "discr":
        return f"discr({show(e[1], depth+1)})"
    if k == "agg":
        return f"{str(e[1]).split('::')[-1]}::{e[2]}({', '.join(show(a, depth+1) for a in e[3])})"
    if k == "phi":
        return "phi{" + " | ".join(show(a, depth + 1) for a in e[1]) + "}"
    if k == "place":
        return e[2] or f"_{e[1]}"
    if k == "var":
        return f"var:{e[2] or '_' + str(e[1])}"
    if k in ("local", "loop"):
        return f"{k}:{e[2] or '_' + str(e[1])}"
    return str(e)[:60]


def walk_deep(e, prov, limit=400):
    """Like walk(), but expands ('var', ...) nodes through their reaching definitions (each var once)."""
    seen = set()
    stack = [e]
    n = 0
    while stack and n < limit:
        x = stack.pop()
        for y in walk(x):
            n += 1
            yield y
            if y[0] == "var":
                key = (y[1], y[3])
                if key in seen:
                    continue
                seen.add(key)
                stack.extend(prov.expand(y))
            elif y[0] == "place":
                # a mutably borrowed local (iterator state, out-parameter): flow-insensitively, everything ever assigned to it
                key = ("place", y[1])
                if key in seen:
                    continue
                seen.add(key)
                for k2, ds in prov.defs.items():
                    if k2[0] == y[1]:
                        for d in ds:
                            stack.append(prov.def_expr(d, k2, 0, frozenset()))
