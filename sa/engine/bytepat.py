"""Which byte strings does a boolean function over a byte array accept?

A predicate such as `is_relative_reference` (d_name is "." or "..") can be written as slice comparisons with literals, as a slice
pattern (`matches!(name, [b'.', 0, ..])`) or as byte tests. All of these are, path by path, conjunctions of literals "bytes i..j of
the subject are (not) these values". The functions here turn every acyclic path of the function into such a conjunction plus the
outcome on that path, so a rule can compare the accepted language with the intended one instead of matching one spelling."""
from .dtable import enumerate_paths, path_return_value
from .fold import fold
from .prov import strip_casts, walk_deep


def _peel(e, n=12):
    e = strip_casts(e)
    while isinstance(e, tuple) and e and n > 0:
        if e[0] in ("ref", "addr"):
            e = strip_casts(e[2])
        elif e[0] == "deref":
            e = strip_casts(e[1])
        else:
            break
        n -= 1
    return e


def _const_bytes(e):
    """the bytes a constant (possibly a promoted reference to a byte-string literal) denotes"""
    e = _peel(e)
    if not (isinstance(e, tuple) and e and e[0] == "const"):
        return None
    if len(e) > 5 and e[5]:
        # reference(s) to the data: the pointee bytes of the first pointer
        return list(e[5][0][1])
    if len(e) > 4 and e[4] is not None and "u8" in str(e[3]):
        return list(e[4])
    return None


def _slice_of(e, is_subject):
    """(start, end) when e is subject[start..end] (end None = open); (0, None) for the subject itself"""
    e = _peel(e)
    if is_subject(e):
        return (0, None)
    if isinstance(e, tuple) and e and e[0] == "call" and (e[1] or "").endswith("Index::index") and len(e[2]) == 2 and is_subject(_peel(e[2][0])):
        r = _peel(e[2][1])
        if isinstance(r, tuple) and r[0] == "agg":
            nm = str(r[1])
            vals = [fold(x) for x in (r[3] or ())]
            if nm.endswith("RangeTo") and len(vals) == 1 and vals[0] is not None:
                return (0, vals[0])
            if nm.endswith("ops::range::Range") and len(vals) == 2 and None not in vals:
                return (vals[0], vals[1])
    if isinstance(e, tuple) and e and e[0] == "subslice" and is_subject(_peel(e[1])) and not e[4]:
        return (e[2], e[3] if e[3] else None)
    return None


def _element_of(e, is_subject):
    e = _peel(e)
    if isinstance(e, tuple) and e and e[0] == "cindex" and not e[3] and is_subject(_peel(e[1])):
        return e[2]
    if isinstance(e, tuple) and e and e[0] == "index" and is_subject(_peel(e[1])):
        return fold(e[2])
    return None


def literal(f, is_subject, prov):
    """(polarity, {index: byte}) for an edge fact about the subject; None when the fact does not concern it; "?" when it does but is not understood"""
    def about(x):
        return any(is_subject(_peel(y)) for y in walk_deep(x, prov, limit=120))
    if f[0] == "truth" and isinstance(f[1], tuple) and f[1][0] == "call" and (f[1][1] or "").endswith(("PartialEq::eq", "PartialEq::ne")) and len(f[1][2]) == 2:
        a, b = f[1][2]
        for s, c in ((a, b), (b, a)):
            sl, cb = _slice_of(s, is_subject), _const_bytes(c)
            if sl is not None and cb is not None and (sl[1] is None or sl[1] - sl[0] == len(cb)) and sl[1] is not None:
                pol = bool(f[2]) == (f[1][1] or "").endswith("::eq")
                return (pol, {sl[0] + i: v for i, v in enumerate(cb)})
        return "?" if about(f[1]) else None
    if f[0] == "cmp" and f[1] in ("Eq", "Ne"):
        for s, c in ((f[2], f[3]), (f[3], f[2])):
            i, v = _element_of(s, is_subject), fold(c)
            if i is not None and v is not None:
                return (f[1] == "Eq", {i: v})
        return "?" if (about(f[2]) or about(f[3])) else None
    if f[0] in ("truth", "cmp", "variant", "notvariant"):
        return "?" if any(about(x) for x in f[1:] if isinstance(x, tuple)) else None
    return None


def accepted(ctx, is_subject):
    """[(literals, outcome)] per acyclic path; outcome True/False; None (whole result) when some path is not understood"""
    rows = []
    for edges in enumerate_paths(ctx):
        lits = []
        for e in edges:
            if e.kind != "sw":
                continue
            for f in ctx.edge_facts(e):
                l = literal(f, is_subject, ctx.prov)
                if l == "?":
                    return None
                if l is not None:
                    lits.append(l)
        v = path_return_value(ctx, edges)
        v = strip_casts(v) if v is not None else None
        if isinstance(v, tuple) and v and v[0] == "const" and v[1] in (0, 1, True, False):
            rows.append((lits, bool(v[1])))
            continue
        if isinstance(v, tuple) and v and v[0] == "bin" and v[1] in ("Eq", "Ne"):
            l = literal(("cmp", v[1], v[2], v[3]), is_subject, ctx.prov)
        else:
            l = literal(("truth", v, True), is_subject, ctx.prov) if isinstance(v, tuple) else "?"
        if l in ("?", None):
            return None
        rows.append((lits + [l], True))
        rows.append((lits + [(not l[0], l[1])], False))
    return rows


def _consistent(lits):
    pos = {}
    for pol, d in lits:
        if pol:
            for i, v in d.items():
                if pos.get(i, v) != v:
                    return None
                pos[i] = v
    for pol, d in lits:
        if not pol and all(pos.get(i) == v for i, v in d.items()):
            return None
    return pos


def language_is(rows, patterns):
    """True when the function accepts exactly the byte strings that start with one of `patterns` (lists of byte values).
    Returns (ok, why)."""
    pats = [{i: v for i, v in enumerate(p)} for p in patterns]
    for lits, out in rows:
        pos = _consistent(lits)
        if pos is None:
            continue                                        # infeasible path
        if out:
            # every string on this path must start with one of the patterns: the path's positive knowledge covers a pattern
            if not any(all(pos.get(i) == v for i, v in p.items()) for p in pats):
                return False, f"accepts names with only bytes {sorted(pos.items())} fixed"
        else:
            # no string matching a pattern may take this path
            for p in pats:
                merged = _consistent(lits + [(True, p)])
                if merged is not None:
                    return False, f"rejects a name starting with {bytes(p[i] for i in sorted(p))!r}"
    return True, ""
