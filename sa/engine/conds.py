"""Edge refinement: what does taking a SwitchInt edge imply?

facts are tuples:
  ('cmp', op, a, b)            op in Eq Ne Lt Le Gt Ge ; a, b provenance expressions
  ('variant', e, name)         the enum value e is of variant `name`
  ('notvariant', e, name)
  ('truth', e, bool)           boolean expression e has this value (e.g. a call result)
"""
from .prov import strip_casts

NEG = {"Eq": "Ne", "Ne": "Eq", "Lt": "Ge", "Ge": "Lt", "Gt": "Le", "Le": "Gt"}
STD_VARIANTS = {
    "core::result::Result": ["Ok", "Err"],
    "core::option::Option": ["None", "Some"],
    "core::ops::ControlFlow": ["Continue", "Break"],
    "core::ops::control_flow::ControlFlow": ["Continue", "Break"],
    "core::cmp::Ordering": ["Less", "Equal", "Greater"],
}


def variant_names(prog, ty):
    base = ty.split("<")[0].lstrip("&").strip()
    if base in STD_VARIANTS:
        return STD_VARIANTS[base]
    a = prog.adts.get(base) if prog else None
    if a:
        return [v["name"] for v in a["variants"]]
    return None


def bool_facts(e, val, out, prog=None, depth=0):
    """Facts implied by boolean expression e == val."""
    e0 = e
    e = strip_casts(e)
    if depth > 12 or not isinstance(e, tuple):
        return
    k = e[0]
    if k == "bin" and e[1] in NEG:
        op = e[1] if val else NEG[e[1]]
        out.append(("cmp", op, e[2], e[3]))
        return
    if k == "un" and e[1] == "Not":
        bool_facts(e[2], not val, out, prog, depth + 1)
        return
    if k == "call":
        name = e[1] or ""
        if name.endswith("::is_ok") or name.endswith("::is_err") or name.endswith("::is_some") or name.endswith("::is_none"):
            which = name.rsplit("::", 1)[1]
            target = {"is_ok": "Ok", "is_err": "Err", "is_some": "Some", "is_none": "None"}[which]
            other = {"Ok": "Err", "Err": "Ok", "Some": "None", "None": "Some"}[target]
            inner = e[2][0] if e[2] else None
            # strip the & taken for the method call
            while isinstance(inner, tuple) and inner[0] in ("ref",):
                inner = inner[2]
            out.append(("variant", inner, target if val else other))
            return
        out.append(("truth", e, val))
        return
    if k == "phi":
        # a flag assigned const true/false on different predecessors: handled by callers (flag_edges)
        out.append(("truth", e, val))
        return
    if k == "const":
        return
    out.append(("truth", e0, val))


def switch_edge_facts(cfg, prov, prog, edge):
    """Facts implied by taking a 'sw' edge."""
    if edge.kind != "sw":
        return []
    b = cfg.block(edge.src)
    t = b["term"]
    at = (edge.src, len(b["stmts"]))
    d = prov.operand(t["discr"], at)
    ty = None
    if t["discr"]["k"] in ("copy", "move"):
        pl = t["discr"]["p"]
        ty = pl.get("ty") or prov.local_ty.get(pl["l"])
    out = []
    ds = strip_casts(d)
    targets = [v for v, _ in t["targets"]]
    if isinstance(ds, tuple) and ds[0] == "discr":
        inner = ds[1]
        # type of inner to name variants
        names = None
        for s in b["stmts"][::-1]:
            if s["k"] == "assign" and s["rv"]["k"] == "discr":
                p = s["rv"]["p"]
                ity = p.get("ty") or prov.local_ty.get(p["l"])
                names = variant_names(prog, ity) if ity else None
                break
        if names is None:
            names = _names_from_def(cfg, prov, prog, t["discr"])

        def nm(v):
            if names and isinstance(v, int) and v < len(names):
                return names[v]
            return v
        if edge.val == "otherwise":
            rest = None
            if names:
                remaining = [n for i, n in enumerate(names) if i not in targets]
                if len(remaining) == 1:
                    rest = remaining[0]
            if rest is not None:
                out.append(("variant", inner, rest))
            else:
                for v in targets:
                    out.append(("notvariant", inner, nm(v)))
        else:
            out.append(("variant", inner, nm(edge.val)))
        return out
    if ty == "bool" or (ty is None and isinstance(ds, tuple) and (ds[0] in ("call", "un", "phi") or (ds[0] == "bin" and ds[1] in NEG))):
        if edge.val == "otherwise":
            # targets usually [0] -> otherwise means true
            if targets == [0]:
                bool_facts(d, True, out, prog)
            elif targets == [1]:
                bool_facts(d, False, out, prog)
        else:
            bool_facts(d, bool(edge.val), out, prog)
        return out
    # integer switch
    if edge.val == "otherwise":
        for v in targets:
            out.append(("cmp", "Ne", d, ("const", v, None, ty)))
    else:
        out.append(("cmp", "Eq", d, ("const", edge.val, None, ty)))
    return out


def _names_from_def(cfg, prov, prog, discr_op):
    if discr_op["k"] not in ("copy", "move"):
        return None
    l = discr_op["p"]["l"]
    for (bb, idx) in prov.defs.get((l, None), []):
        b = cfg.block(bb)
        if idx < len(b["stmts"]):
            s = b["stmts"][idx]
            if s["k"] == "assign" and s["rv"]["k"] == "discr":
                p = s["rv"]["p"]
                ity = p.get("ty") or prov.local_ty.get(p["l"])
                if ity:
                    return variant_names(prog, ity)
    return None
