"""Path-sensitive reachability for correlated tests.

`if x.is_err() { cleanup }  let v = x?;` tests the same Result twice; the CFG joins in between, so plain reachability sees the
combinations (is_err == false, then the `?` fails) and (is_err == true, then the `?` succeeds), which cannot happen. The search here
carries the decisions already taken about such expressions and refuses an edge that contradicts one. Only expressions that are tested
in at least two different blocks are tracked, and only when they do not mention a merged (`var`) local - a call result held in a
temporary is assigned once, so the same canonical expression denotes the same value at both tests."""
from collections import deque

from .dtable import canon
from .prov import strip_casts

POS, NEG = ("Ok", "Some", "Continue"), ("Err", "None", "Break")


def _key(x):
    x = strip_casts(x)
    n = 0
    while isinstance(x, tuple) and x and n < 8:
        if x[0] == "call" and (x[1] or "").endswith("Try::branch") and x[2]:
            x = strip_casts(x[2][0])
        elif x[0] == "ref":
            x = strip_casts(x[2])
        else:
            break
        n += 1
    k = canon(x)
    return None if "var:" in k or "place:" in k else k


def _subject(x):
    """the expression a decision is about, with the `?` plumbing removed (as in _key)"""
    x = strip_casts(x)
    n = 0
    while isinstance(x, tuple) and x and n < 8:
        if x[0] == "call" and (x[1] or "").endswith("Try::branch") and x[2]:
            x = strip_casts(x[2][0])
        elif x[0] == "ref":
            x = strip_casts(x[2])
        else:
            break
        n += 1
    return x


# pure predicates of their argument: asking twice about the same value gives the same answer
PURE_PREDICATES = ("::is_syscall_error",)


def _calls_in(x, out, depth=0):
    if not isinstance(x, tuple) or depth > 25:
        return
    if x and x[0] == "call" and len(x) > 3 and isinstance(x[3], int):
        out.add(x[3])
    for y in (x[1:] if x and isinstance(x[0], str) else x):
        if isinstance(y, tuple):
            _calls_in(y, out, depth + 1)


def edge_decisions(ctx):
    if getattr(ctx, "_ps_dec", None) is not None:
        return ctx._ps_dec
    cfg = ctx.cfg
    per_edge, blocks_of, defs = {}, {}, {}
    for sb in cfg.live_blocks():
        if cfg.term(sb)["k"] != "switch":
            continue
        for e in cfg.succ[sb]:
            for f in ctx.edge_facts(e):
                k = pol = None
                subject = f[1]
                if f[0] == "variant" and f[2] in POS + NEG:
                    k, pol = _key(f[1]), f[2] in POS
                elif f[0] == "truth" and isinstance(f[1], tuple) and f[1][0] == "call" and (f[1][1] or "").endswith(PURE_PREDICATES) and f[1][2]:
                    k0 = _key(f[1][2][0])
                    k, pol = (None if k0 is None else f"{f[1][1].split('::')[-1]}({k0})"), bool(f[2])
                    subject = f[1][2][0]        # asking again does not change the value asked about
                if k is None:
                    continue
                per_edge.setdefault((e.src, e.dst), []).append((k, pol))
                blocks_of.setdefault(k, set()).add(e.src)
                _calls_in(_subject(subject), defs.setdefault(k, set()))
    multi = {k for k, bs in blocks_of.items() if len(bs) >= 2}
    ctx._ps_dec = {ed: [(k, p) for k, p in ds if k in multi] for ed, ds in per_edge.items()}
    ctx._ps_dec = {ed: ds for ed, ds in ctx._ps_dec.items() if ds}
    # a decision is about the value computed by particular call blocks: it is forgotten when one of them runs again (next loop round)
    kill = {}
    for k in multi:
        for b in defs.get(k, ()):
            kill.setdefault(b, set()).add(k)
    ctx._ps_kill = kill
    return ctx._ps_dec


def reachable(ctx, start, avoid=frozenset(), avoid_edges=None, via_edge=None):
    """blocks reachable from `start` on paths that are consistent about correlated variant tests
    (via_edge: the (src, dst) edge by which `start` was entered - its decisions are the initial state)"""
    cfg = ctx.cfg
    dec = edge_decisions(ctx)
    if not dec:
        return cfg.reachable_from(start, avoid=avoid, avoid_edges=avoid_edges)
    if start in avoid:
        return set()
    st0 = frozenset(dec.get(via_edge, ())) if via_edge else frozenset()
    seen = {(start, st0)}
    out = {start}
    dq = deque([(start, st0)])
    while dq:
        b, st = dq.popleft()
        for e in cfg.succ[b]:
            if e.dst in avoid or e.dst in cfg.unreachable_blocks:
                continue
            if avoid_edges and (e.src, e.dst) in avoid_edges:
                continue
            st2 = st
            bad = False
            for k, p in dec.get((e.src, e.dst), ()):
                if (k, not p) in st2:
                    bad = True
                    break
                st2 = st2 | {(k, p)}
            if bad:
                continue
            kk = ctx._ps_kill.get(e.dst)
            if kk:
                st2 = frozenset(d for d in st2 if d[0] not in kk)
            if (e.dst, st2) in seen or len(seen) > 20000:
                continue
            seen.add((e.dst, st2))
            out.add(e.dst)
            dq.append((e.dst, st2))
    return out


def reachable_after(ctx, via, avoid=frozenset(), avoid_edges=None):
    """blocks that can be reached from the entry on a consistent path that has passed through block `via` before"""
    cfg = ctx.cfg
    dec = edge_decisions(ctx)
    if not dec:
        return cfg.reachable_from(via, avoid=avoid, avoid_edges=avoid_edges) if via in cfg.live_blocks() else set()
    start = (0, frozenset(), via == 0)
    seen = {start}
    out = set()
    dq = deque([start])
    while dq:
        b, st, passed = dq.popleft()
        if passed:
            out.add(b)
        for e in cfg.succ[b]:
            if e.dst in avoid or e.dst in cfg.unreachable_blocks:
                continue
            if avoid_edges and (e.src, e.dst) in avoid_edges:
                continue
            st2 = st
            bad = False
            for k, p in dec.get((e.src, e.dst), ()):
                if (k, not p) in st2:
                    bad = True
                    break
                st2 = st2 | {(k, p)}
            if bad:
                continue
            kk = ctx._ps_kill.get(e.dst)
            if kk:
                st2 = frozenset(d for d in st2 if d[0] not in kk)
            nxt = (e.dst, st2, passed or e.dst == via)
            if nxt in seen or len(seen) > 40000:
                continue
            seen.add(nxt)
            dq.append(nxt)
    return out
