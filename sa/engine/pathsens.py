"""Path-sensitive reachability for correlated tests.

`if x.is_err() { cleanup }  let v = x?;` tests the same Result twice; the CFG joins in between, so plain reachability sees the
combinations (is_err == false, then the `?` fails) and (is_err == true, then the `?` succeeds), which cannot happen. The search here
carries the decisions already taken about such expressions and refuses an edge that contradicts one. Only expressions that are tested
in at least two different blocks are tracked, and only when they do not mention a merged (`var`) local - a call result held in a
temporary is assigned once, so the same canonical expression denotes the same value at both tests."""
from collections import deque

from .dtable import canon
from .prov import strip_casts

POS, NEG = ("Ok", "Some", "Continue"), ("Err", "None", "Break")


def _key(x):
    x = strip_casts(x)
    n = 0
    while isinstance(x, tuple) and x and n < 8:
        if x[0] == "call" and (x[1] or "").endswith("Try::branch") and x[2]:
            x = strip_casts(x[2][0])
        elif x[0] == "ref":
            x = strip_casts(x[2])
        else:
            break
        n += 1
    k = canon(x)
    return None if "var:" in k or "place:" in k else k


def edge_decisions(ctx):
    if getattr(ctx, "_ps_dec", None) is not None:
        return ctx._ps_dec
    cfg = ctx.cfg
    per_edge, blocks_of = {}, {}
    for sb in cfg.live_blocks():
        if cfg.term(sb)["k"] != "switch":
            continue
        for e in cfg.succ[sb]:
            for f in ctx.edge_facts(e):
                if f[0] == "variant" and f[2] in POS + NEG:
                    k = _key(f[1])
                    if k is None:
                        continue
                    per_edge.setdefault((e.src, e.dst), []).append((k, f[2] in POS))
                    blocks_of.setdefault(k, set()).add(e.src)
    multi = {k for k, bs in blocks_of.items() if len(bs) >= 2}
    ctx._ps_dec = {ed: [(k, p) for k, p in ds if k in multi] for ed, ds in per_edge.items()}
    ctx._ps_dec = {ed: ds for ed, ds in ctx._ps_dec.items() if ds}
    return ctx._ps_dec


def reachable(ctx, start, avoid=frozenset(), avoid_edges=None, via_edge=None):
    """blocks reachable from `start` on paths that are consistent about correlated variant tests
    (via_edge: the (src, dst) edge by which `start` was entered - its decisions are the initial state)"""
    cfg = ctx.cfg
    dec = edge_decisions(ctx)
    if not dec:
        return cfg.reachable_from(start, avoid=avoid, avoid_edges=avoid_edges)
    if start in avoid:
        return set()
    st0 = frozenset(dec.get(via_edge, ())) if via_edge else frozenset()
    seen = {(start, st0)}
    out = {start}
    dq = deque([(start, st0)])
    while dq:
        b, st = dq.popleft()
        for e in cfg.succ[b]:
            if e.dst in avoid or e.dst in cfg.unreachable_blocks:
                continue
            if avoid_edges and (e.src, e.dst) in avoid_edges:
                continue
            st2 = st
            bad = False
            for k, p in dec.get((e.src, e.dst), ()):
                if (k, not p) in st2:
                    bad = True
                    break
                st2 = st2 | {(k, p)}
            if bad:
                continue
            if (e.dst, st2) in seen or len(seen) > 20000:
                continue
            seen.add((e.dst, st2))
            out.add(e.dst)
            dq.append((e.dst, st2))
    return out


def reachable_after(ctx, via, avoid=frozenset(), avoid_edges=None):
    """blocks that can be reached from the entry on a consistent path that has passed through block `via` before"""
    cfg = ctx.cfg
    dec = edge_decisions(ctx)
    if not dec:
        return cfg.reachable_from(via, avoid=avoid, avoid_edges=avoid_edges) if via in cfg.live_blocks() else set()
    start = (0, frozenset(), via == 0)
    seen = {start}
    out = set()
    dq = deque([start])
    while dq:
        b, st, passed = dq.popleft()
        if passed:
            out.add(b)
        for e in cfg.succ[b]:
            if e.dst in avoid or e.dst in cfg.unreachable_blocks:
                continue
            if avoid_edges and (e.src, e.dst) in avoid_edges:
                continue
            st2 = st
            bad = False
            for k, p in dec.get((e.src, e.dst), ()):
                if (k, not p) in st2:
                    bad = True
                    break
                st2 = st2 | {(k, p)}
            if bad:
                continue
            nxt = (e.dst, st2, passed or e.dst == via)
            if nxt in seen or len(seen) > 40000:
                continue
            seen.add(nxt)
            dq.append(nxt)
    return out
