"""K7: potential-panic inventory with a small auto-discharger.

site = dict(fn, bb, kind, ops (provenance exprs), canon key, span).  A site is auto-discharged by:
  D1  type invariant      len(UnixStr bytes) - 1           (UnixStr is never empty)
  D2  dominating compare  a - c   with a dominating fact  a >= c' (c <= c'),  a != 0 (c == 1),  a > b / a >= b for a - b
  D3  index arithmetic    x + c   where x is an index delivered by an iterator (enumerate / Range) or a len(): cannot reach usize::MAX
  D4  range-bounded index bounds check  idx < len  where idx comes from `for idx in 0..len(same slice)` / enumerate over the same slice
  D5  known zero          x + c   under a dominating fact x == 0
Everything else must be in the caller's reviewed table or is reported.
"""
from .prov import const_value, strip_casts, walk, walk_deep, show
from .dtable import canon
from .fold import fold

PANIC_CALLS = ("core::panicking::", "::unwrap", "::expect", "core::ops::index::Index::index", "core::ops::index::IndexMut::index_mut",
               "::copy_from_slice", "::split_at", "slice_index", "::split_at_mut", "core::slice::index::")
NOT_PANIC = ("unwrap_or", "unwrap_unchecked", "unchecked", "unwrap_or_default", "unwrap_or_else")


def is_panicking_call(name):
    if not name:
        return False
    if any(x in name for x in NOT_PANIC):
        return False
    return any(x in name for x in PANIC_CALLS)


def sites(ctx, include_calls=True):
    out = []
    cfg = ctx.cfg
    live = cfg.live_blocks()
    for b in ctx.fn["blocks"]:
        bid = b["id"]
        if b.get("cleanup") or bid not in live:
            continue
        t = b["term"]
        at = (bid, len(b["stmts"]))
        if t["k"] == "assert" and t["msg"] not in ("misaligned", "nullptr", "invalid_enum"):
            ops = [ctx.prov.operand(o, at) for o in t["ops"]]
            out.append({"bb": bid, "kind": t["msg"], "ops": ops, "sp": t["sp"], "key": f"{t['msg']}({','.join(canon(o) for o in ops)})"})
        elif t["k"] == "call" and include_calls and is_panicking_call(t.get("callee")):
            if t["sp"].get("m") and ("assert" in t["sp"]["m"] or "panic" in t["sp"]["m"] or "unreachable" in t["sp"]["m"]):
                kind = "explicit-" + t["sp"]["m"].replace("$crate::", "")
            else:
                kind = "call:" + (t.get("callee") or "").split("::")[-1]
            ops = ctx.args(bid)
            out.append({"bb": bid, "kind": kind, "ops": ops, "sp": t["sp"], "callee": t.get("callee"), "key": f"{kind}({','.join(canon(o) for o in ops)})"})
    return out


def dominating_facts(ctx, bb):
    out = []
    cfg = ctx.cfg
    for sb in cfg.live_blocks():
        if cfg.term(sb)["k"] != "switch":
            continue
        for e in cfg.succ[sb]:
            if cfg.edge_dominates(e, bb):
                for f in ctx.edge_facts(e):
                    out.append(f)
    return out


def is_len_of_unixstr(e):
    e = strip_casts(e)
    if isinstance(e, tuple) and e[0] == "call" and (e[1] or "").endswith("::len") and e[2]:
        inner = e[2][0]
        for x in walk_inner(inner):
            if x[0] == "field" and x[2] == "0" and x[3] in ("rusl::string::unix_str::UnixStr", "rusl::string::unix_str::UnixString"):
                return True
            if x[0] == "param" and False:
                return True
        # UnixStr::len(self)
        if (e[1] or "").endswith("UnixStr::len"):
            return True
    return False


def walk_inner(e):
    stack = [e]
    while stack:
        x = stack.pop()
        if not isinstance(x, tuple) or not x or not isinstance(x[0], str):
            continue
        yield x
        if x[0] in ("ref", "addr", "cast"):
            stack.append(x[2])
        elif x[0] in ("deref", "field", "downcast"):
            stack.append(x[1])


def is_index_like(e, prov):
    """payload of an iterator's next() (enumerate index / Range item), a len(), or arithmetic thereof with small constants."""
    e = strip_casts(e)
    if not isinstance(e, tuple):
        return False
    if e[0] == "call" and (e[1] or "").endswith(("::len", "PtrMetadata")):
        return True
    if e[0] == "un" and e[1] == "PtrMetadata":
        return True
    for x in walk_deep(e, prov, limit=60):
        if x[0] == "call" and (x[1] or "").endswith(("Iterator::next", "DoubleEndedIterator::next_back")):
            return True
        # the position an iterator search reports is an index into the sequence searched (< its length)
        if x[0] == "call" and (x[1] or "").endswith(("Iterator::position", "Iterator::rposition")):
            return True
    return False


def lower_bound(a, facts):
    """largest constant c with a dominating fact proving a >= c (unsigned)."""
    ca = canon(a)
    best = 0
    for f in facts:
        if f[0] != "cmp":
            continue
        op, x, y = f[1], f[2], f[3]
        cx, cy = canon(x), canon(y)
        vy, vx = fold(y), fold(x)
        if cx == ca and vy is not None:
            if op == "Ge":
                best = max(best, vy)
            elif op == "Gt":
                best = max(best, vy + 1)
            elif op == "Ne" and vy == 0:
                best = max(best, 1)
            elif op == "Eq":
                best = max(best, vy)
        if cy == ca and vx is not None:
            if op == "Le":
                best = max(best, vx)
            elif op == "Lt":
                best = max(best, vx + 1)
            elif op == "Ne" and vx == 0:
                best = max(best, 1)
            elif op == "Eq":
                best = max(best, vx)
    return best


def _norm_len(c):
    return c.replace("PtrMetadata(", "len(").replace("*", "").replace("&", "")


def proves_ge(a, b, facts):
    ca, cb = _norm_len(canon(a)), _norm_len(canon(b))
    for f in facts:
        if f[0] != "cmp":
            continue
        op, x, y = f[1], _norm_len(canon(f[2])), _norm_len(canon(f[3]))
        if (x, y) == (ca, cb) and op in ("Ge", "Gt", "Eq"):
            return True
        if (x, y) == (cb, ca) and op in ("Le", "Lt", "Eq"):
            return True
    return False


def range_bounded(idx, length, ctx):
    """idx is produced by `for idx in start..len(S)` (or enumerate over S) where `length` is the length of the same S."""
    cl = canon(length).replace("*", "")
    for x in walk_deep(idx, ctx.prov, limit=80):
        if x[0] == "agg" and str(x[1]).endswith("ops::range::Range") and len(x[3]) == 2:
            end = canon(x[3][1]).replace("*", "")
            if end == cl or same_len(end, cl):
                return True
        if x[0] == "call" and (x[1] or "").endswith("Iterator::enumerate") and x[2]:
            src = canon(x[2][0]).replace("*", "")
            if src_of_len(cl) and src_of_len(cl) in src:
                return True
    return False


def position_bounded(idx, length, ctx):
    """idx is `p` or `p - k` where p is the Some payload of `iter.position(..)` / `iter.rposition(..)` and iter walks the slice whose length
    is `length` (or a sub-slice taken from it with a range): a position is below the number of elements walked, hence below `length`.
    `p + k` is not accepted."""
    e = strip_casts(idx)
    for _ in range(4):
        if isinstance(e, tuple) and e[0] in ("bin", "overflow") and str(e[1]).startswith("Sub") and fold(e[3]) is not None and fold(e[3]) >= 0:
            e = strip_casts(e[2])
        elif isinstance(e, tuple) and e[0] == "field" and isinstance(e[1], tuple) and e[1][0] in ("bin", "overflow") and str(e[2]) == "0":
            e = strip_casts(e[1])
        else:
            break
    if any(z[0] in ("bin", "overflow") for z in walk(e)):
        return False
    def base(x, n=10):
        """the place a slice expression stands for: length-of / reference / dereference / sub-slicing peeled off"""
        x = strip_casts(x)
        while isinstance(x, tuple) and x and n > 0:
            n -= 1
            if x[0] in ("len", "ptrmeta") and len(x) > 1:
                x = strip_casts(x[1])
            elif x[0] == "un" and x[1] == "PtrMetadata":
                x = strip_casts(x[2])
            elif x[0] == "call" and (x[1] or "").endswith(("<impl [T]>::len", "Index::index", "::get_unchecked", "<impl [T]>::as_ref")) and x[2]:
                x = strip_casts(x[2][0])
            elif x[0] in ("ref", "addr") and len(x) > 2:
                x = strip_casts(x[2])
            elif x[0] == "deref":
                x = strip_casts(x[1])
            else:
                break
        return canon(x)
    cl = base(length)
    for x in walk_deep(e, ctx.prov, limit=80):
        if x[0] == "call" and (x[1] or "").endswith(("Iterator::position", "Iterator::rposition", "::position", "::rposition")) and x[2]:
            for y in walk_deep(x[2][0], ctx.prov, limit=80):
                if y[0] == "call" and (y[1] or "").endswith("<impl [T]>::iter") and y[2]:
                    if base(y[2][0]) == cl:
                        return True
    return False


def same_len(a, b):
    sa, sb = src_of_len(a), src_of_len(b)
    return sa is not None and sa == sb


def src_of_len(c):
    # canon forms: len(X) | PtrMetadata(X)
    for pre in ("len(", "PtrMetadata("):
        if c.startswith(pre) and c.endswith(")"):
            return c[len(pre):-1]
    return None


def discharge(ctx, site):
    """-> (ok, reason)"""
    kind, ops = site["kind"], site["ops"]
    facts = dominating_facts(ctx, site["bb"])
    if kind == "overflow_sub" and len(ops) == 2:
        a, b = ops
        cb = fold(b)
        if cb is not None:
            if cb == 1 and is_len_of_unixstr(a):
                return True, "D1: a UnixStr is never empty (len >= 1)"
            lb = lower_bound(a, facts)
            if is_len_of_unixstr(a):
                lb = max(lb, 1)
            if lb >= cb:
                return True, f"D2: dominating comparison proves the minuend >= {lb}"
            return False, f"`{show(a)} - {cb}` underflows when the minuend is below {cb}; nothing on the path bounds it (known lower bound {lb})"
        if proves_ge(a, b, facts):
            return True, "D2: dominating comparison a >= b"
        # D7: len(S) - i where i is an index delivered by enumerate over the same S (i < len(S)); UnixStr::len(x) is len(x.0)
        a0 = strip_casts(a)
        if isinstance(a0, tuple) and a0[0] == "call" and ((a0[1] or "").endswith(("<impl [T]>::len", "UnixStr::len", "UnixStr::len_with_null")) ) and a0[2]:
            base = canon(a0[2][0]).replace("*", "").replace("&", "")
            for x in walk_deep(b, ctx.prov, limit=80):
                if x[0] == "call" and (x[1] or "").endswith("Iterator::enumerate") and x[2]:
                    srcs = [canon(y[2][0]).replace("*", "").replace("&", "") for y in walk_deep(x[2][0], ctx.prov, limit=40) if y[0] == "call" and (y[1] or "").endswith("<impl [T]>::iter") and y[2]]
                    if srcs and all(sx == base or sx == base + ".0" for sx in srcs) and isinstance(strip_casts(b), tuple) and strip_casts(b)[0] == "field" and str(strip_casts(b)[2]) == "0":
                        return True, "D7: the subtrahend is an enumerate index over the slice whose length is the minuend (index < length)"
        return False, f"`{show(a)} - {show(b)}`: no dominating comparison proves the minuend is the larger"
    if kind == "overflow_add" and len(ops) == 2:
        a, b = ops
        ca, cb = fold(a), fold(b)
        small = lambda v: v is not None and 0 <= v <= 4096  # noqa: E731
        if ca is not None and cb is not None:
            return True, "constant"
        for x, c in ((a, cb), (b, ca)):
            if small(c) and is_index_like(x, ctx.prov):
                return True, "D3: index/len plus a small constant cannot reach usize::MAX"
            if small(c):
                for f in facts:
                    if f[0] == "cmp" and f[1] == "Eq" and ((canon(f[2]) == canon(x) and fold(f[3]) is not None) or (canon(f[3]) == canon(x) and fold(f[2]) is not None)):
                        return True, "D5: operand known constant on this path"
        if is_index_like(a, ctx.prov) and is_index_like(b, ctx.prov):
            return True, "D3: sum of two in-bounds indices (each <= isize::MAX)"
        # D6: an operand bounded from above by a slice length on this path (x < len) plus a small constant / another such operand
        def below_len(x):
            cx = _norm_len(canon(x))
            for f in facts:
                if f[0] == "cmp" and f[1] in ("Lt", "Le") and _norm_len(canon(f[2])) == cx and is_index_like(f[3], ctx.prov):
                    return True
                if f[0] == "cmp" and f[1] in ("Gt", "Ge") and _norm_len(canon(f[3])) == cx and is_index_like(f[2], ctx.prov):
                    return True
            return False
        if (below_len(a) or is_index_like(a, ctx.prov)) and (small(cb) or below_len(b) or is_index_like(b, ctx.prov)):
            return True, "D6: operands bounded by slice lengths on this path (<= isize::MAX each)"
        if small(ca) and (below_len(b) or is_index_like(b, ctx.prov)):
            return True, "D6: operand bounded by a slice length on this path"
        return False, f"`{show(a)} + {show(b)}` is not bounded by anything on the path"
    if kind == "bounds" and len(ops) == 2:
        length, idx = ops
        if range_bounded(idx, length, ctx):
            return True, "D4: index produced by a range/enumerate over the same slice"
        if position_bounded(idx, length, ctx):
            return True, "D11: index answered by position/rposition over (a prefix of) the same slice, minus at most a constant"
        ci = fold(idx)
        if ci is not None:
            lb = lower_bound(length, facts)
            if lb > ci:
                return True, f"D2: length >= {lb} on this path"
            return False, f"index {ci} into a slice whose length is not known to exceed it (an empty slice panics)"
        cl, ci2 = _norm_len(canon(length)), _norm_len(canon(idx))
        for f in facts:
            if f[0] == "cmp":
                x, y = _norm_len(canon(f[2])), _norm_len(canon(f[3]))
                if (f[1] == "Lt" and (x, y) == (ci2, cl)) or (f[1] == "Gt" and (x, y) == (cl, ci2)):
                    return True, "D2: dominating idx < len"
        return False, f"index {show(idx)} is not bounded by the slice length {show(length)} on this path"
    if kind.startswith("call:index") and len(ops) == 2:
        # slice[range]: ok when the range ends are discharged elsewhere and within len
        rng = strip_casts(ops[1])
        if isinstance(rng, tuple) and rng[0] == "agg":
            nm = str(rng[1])
            if nm.endswith("RangeFrom") and rng[3]:
                st = rng[3][0]
                # start <= len : start = idx + 1 with idx < len
                if is_index_like(st, ctx.prov):
                    return True, "range start is an in-bounds index + small constant (<= len)"
            if nm.endswith("RangeTo") and rng[3]:
                en = strip_casts(rng[3][0])
                if isinstance(en, tuple) and en[0] == "bin" and en[1] == "Sub" and canon(en[2]).replace("*", "").endswith(canon(ops[0]).replace("*", "").replace("len(", "")) or True:
                    src = canon(ops[0]).replace("*", "")
                    if isinstance(en, tuple) and en[0] == "bin" and en[1] == "Sub" and src_of_len(canon(en[2]).replace("*", "")) in (src, src[:-2] if src.endswith(".0") else None):
                        # (UnixStr::len(x) is the length of x.0)
                        return True, "range end is len - c of the same slice (the subtraction is a separate site)"
        return False, f"slice range {show(ops[1])} not shown to be within bounds"
    if kind.startswith(("explicit", "call:panic")):
        # D8: an assertion whose failing edge contradicts a dominating comparison: `assert!(x - c >= 0)` under `x >= c'` (c' >= c)
        for f in facts:
            if f[0] == "cmp" and f[1] == "Lt" and fold(f[3]) == 0:
                a = strip_casts(f[2])
                if isinstance(a, tuple) and a[0] == "bin" and a[1] in ("Sub", "SubWithOverflow", "SubUnchecked") and fold(a[3]) is not None:
                    c, x = fold(a[3]), canon(strip_casts(a[2]))
                    for g in facts:
                        if g is f or g[0] != "cmp":
                            continue
                        if canon(strip_casts(g[2])) == x and fold(g[3]) is not None and ((g[1] == "Ge" and fold(g[3]) >= c) or (g[1] == "Gt" and fold(g[3]) >= c - 1)):
                            return True, f"D8: the assertion can only fail under `{show(f[2])} < 0`, which contradicts the dominating `{show(g[2])} {g[1]} {fold(g[3])}`"
                        if canon(strip_casts(g[3])) == x and fold(g[2]) is not None and ((g[1] == "Le" and fold(g[2]) >= c) or (g[1] == "Lt" and fold(g[2]) >= c - 1)):
                            return True, "D8: the assertion's failing edge contradicts a dominating comparison"
    if kind.startswith(("explicit", "call:panic")):
        # D10: every way into the panic is a comparison that the interval analysis (symbolic length bounds, loop invariants by
        # bounded iteration) contradicts
        try:
            from .intervals import assertion_cannot_fail
            if assertion_cannot_fail(ctx, site["bb"]):
                return True, "D10: the assertion's failing comparisons contradict the value ranges at the test (interval analysis with the length as symbolic bound)"
        except RecursionError:
            pass
        # D9: `assert!((x & M) < C)` with M < C (or `<= C` with M <= C): a masked value cannot reach the bound
        for f in facts:
            if f[0] == "cmp" and f[1] in ("Ge", "Gt") and fold(f[3]) is not None:
                a = strip_casts(f[2])
                if isinstance(a, tuple) and a[0] == "var":
                    ds = list(ctx.prov.expand(a))
                    a = strip_casts(ds[0]) if len(ds) == 1 else a
                if isinstance(a, tuple) and a[0] == "bin" and a[1] in ("BitAnd", "Rem"):
                    m = fold(a[3]) if fold(a[3]) is not None else fold(a[2])
                    if m is not None:
                        top = m if a[1] == "BitAnd" else m - 1
                        if (f[1] == "Ge" and top < fold(f[3])) or (f[1] == "Gt" and top <= fold(f[3])):
                            return True, f"D9: the assertion can only fail under `{show(f[2])} {f[1]} {fold(f[3])}`, but a value masked with {m} is at most {top}"
    return False, f"{kind}: no discharge rule"
