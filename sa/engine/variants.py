"""K4 instance: enum variant-set refinement of one tracked place, with boolean flag temporaries kept as disjuncts.

Used where MIR routes `matches!` / `if let` through bool temporaries assigned on different predecessors, so a single
joined state would lose the correlation between the flag and the variant it stands for.
"""
from .conds import variant_names


def place_key(pl):
    """(root local, tuple of field names) ignoring derefs; None when indices etc. are involved."""
    names = []
    for pe in pl.get("p", []):
        if pe["k"] == "deref":
            continue
        if pe["k"] == "field":
            names.append(pe.get("n", str(pe["i"])))
        elif pe["k"] == "downcast":
            names.append("@" + str(pe["v"]))
        else:
            return None
    return (pl["l"], tuple(names))


def reachable_returns(ctx, prog, tracked, all_variants, avoid_blocks=frozenset(), max_states=64):
    """Return blocks reachable from entry under variant refinement of the tracked place (root local, field path),
    never entering avoid_blocks. States: (frozenset variants, frozenset((flag_local, bool)))."""
    cfg = ctx.cfg
    # reference temporaries that point at the tracked place (`_8 = &mut (*_1).env`), flow-insensitive
    alias = set()
    for blk in ctx.fn["blocks"]:
        for s in blk["stmts"]:
            if s["k"] == "assign" and s["rv"]["k"] in ("ref", "rawptr") and not s["dst"].get("p") and place_key(s["rv"]["p"]) == tracked:
                alias.add(s["dst"]["l"])

    def pkey(pl):
        k = place_key(pl)
        derefs = [pe for pe in pl.get("p", []) if pe["k"] == "deref"]
        if k and k[0] in alias and derefs:
            return (tracked[0], tracked[1] + k[1])
        return k
    start = (frozenset(all_variants), frozenset())
    seen = {}
    work = [(0, start)]
    rets = set()
    while work:
        b, st = work.pop()
        if b in avoid_blocks or b in cfg.unreachable_blocks:
            continue
        ss = seen.setdefault(b, set())
        if st in ss:
            continue
        if len(ss) >= max_states:
            # join: give up precision
            st = (frozenset(all_variants), frozenset())
            if st in ss:
                continue
        ss.add(st)
        variants, flags = st
        flags = dict(flags)
        discr_of = {}    # local -> True when it holds discriminant(tracked)
        blk = cfg.block(b)
        for si, s in enumerate(blk["stmts"]):
            if s["k"] != "assign":
                continue
            dst = s["dst"]
            rv = s["rv"]
            dk = pkey(dst)
            if dk == tracked or (dk and dk[0] == tracked[0] and tracked[1][:len(dk[1])] == dk[1] and len(dk[1]) < len(tracked[1])):
                # the tracked place (or a prefix of it) is overwritten
                if dk == tracked and rv["k"] == "agg" and rv.get("ak") == "adt":
                    variants = frozenset([rv["variant"]])
                elif dk == tracked and rv["k"] == "use":
                    ev = ctx.prov.rvalue(rv, (b, si))
                    if isinstance(ev, tuple) and ev[0] == "agg" and ev[2] in all_variants:
                        variants = frozenset([ev[2]])
                    else:
                        variants = frozenset(all_variants)
                else:
                    variants = frozenset(all_variants)
            if not dst.get("p"):
                l = dst["l"]
                flags.pop(l, None)
                discr_of.pop(l, None)
                if rv["k"] == "use" and rv["a"].get("k") == "const" and rv["a"].get("ty") == "bool":
                    flags[l] = bool(rv["a"].get("value"))
                elif rv["k"] == "discr" and pkey(rv["p"]) == tracked:
                    discr_of[l] = True
        t = blk["term"]
        if t["k"] == "return":
            rets.add(b)
            continue
        if t["k"] == "call":
            # a call that receives &mut to the tracked place (or its root) may change the variant
            for a in t["args"]:
                if a.get("k") in ("copy", "move"):
                    pass
        if t["k"] == "switch" and t["discr"].get("k") in ("copy", "move") and not t["discr"]["p"].get("p"):
            dl = t["discr"]["p"]["l"]
            targets = t["targets"]
            if dl in discr_of:
                names = all_variants
                taken = set()
                for v, tgt in targets:
                    nm = names[v] if isinstance(v, int) and v < len(names) else None
                    taken.add(nm)
                    if nm in variants:
                        work.append((tgt, (frozenset([nm]), frozenset(flags.items()))))
                rest = frozenset(x for x in variants if x not in taken)
                if rest:
                    work.append((t["otherwise"], (rest, frozenset(flags.items()))))
                continue
            if dl in flags:
                val = 1 if flags[dl] else 0
                hit = [tgt for v, tgt in targets if v == val]
                work.append((hit[0] if hit else t["otherwise"], (variants, frozenset(flags.items()))))
                continue
        for e in cfg.succ[b]:
            work.append((e.dst, (variants, frozenset(flags.items()))))
    return rets
