"""Normalisation: private helper functions that did not exist at the pinned baseline are expanded at their call sites.

Why: the rules reason about the functions of the pinned tree by what they do on every path (which atomic operation with which
operands, which system call, which free). "Extract a helper" is the most common behaviour-preserving refactoring; after it the
operation sits in a new function the rule tables cannot know, its operands are parameters, and the caller only shows a call.
Inlining is semantics-preserving, so the verdicts stay sound; the list of known function paths (sa/known_fns.json) only decides
WHICH calls are expanded (precision), never what is accepted. On the pinned tree nothing is new, so this pass is the identity.

A function G is expanded into its callers when: it belongs to a workspace crate, its path is not in the known list, it is not a
closure / trait-impl method / test, it does not call itself, and it has at most MAX_BLOCKS blocks. Expansion is repeated (helpers
calling helpers) up to MAX_ROUNDS. A fully expanded, non-public helper is removed from the program so that inventories do not see its
parametric body a second time.
"""
import copy
import json
import os

HERE = os.path.dirname(os.path.dirname(os.path.abspath(__file__)))
KNOWN_FILE = os.path.join(HERE, "known_fns.json")
MAX_BLOCKS = 60
MAX_ROUNDS = 4
_known = None


def known():
    global _known
    if _known is None:
        try:
            _known = set(json.load(open(KNOWN_FILE)))
        except Exception:
            _known = None
    return _known


def _shift(o, loff, boff):
    """deep copy of a MIR JSON fragment with locals shifted by loff (block ids are shifted separately by the caller)"""
    if isinstance(o, dict):
        if "f" in o and "k" not in o:          # a span {f, l, m?}: `l` is a line number
            return dict(o)
        out = {}
        for k, v in o.items():
            if k == "sp":
                out[k] = v
            elif k == "l" and isinstance(v, int):
                out[k] = v + loff
            else:
                out[k] = _shift(v, loff, boff)
        return out
    if isinstance(o, list):
        return [_shift(x, loff, boff) for x in o]
    return o


def _shift_term(t, loff, boff):
    t2 = _shift(t, loff, boff)
    for k in ("t", "unwind", "otherwise"):
        if isinstance(t.get(k), int):
            t2[k] = t[k] + boff
    if t["k"] == "switch":
        t2["targets"] = [[v, b + boff] for v, b in t["targets"]]
    if t["k"] == "asm" and isinstance(t.get("targets"), list):
        t2["targets"] = [b + boff if isinstance(b, int) else b for b in t["targets"]]
    return t2


def inline_call(F, bidx, G):
    """expand the call terminating F.blocks[bidx] (callee G) in place"""
    blk = F["blocks"][bidx]
    call = blk["term"]
    loff = len(F["locals"])
    boff = len(F["blocks"])
    for loc in G["locals"]:
        l2 = dict(loc)
        l2["id"] = loc["id"] + loff
        F["locals"].append(l2)
    for nm in G.get("names", []):
        n2 = _shift(nm, loff, boff)
        n2.pop("arg", None)
        F.setdefault("names", []).append(n2)
    sp = call.get("sp")
    # arguments -> the callee's parameter locals
    for i, a in enumerate(call.get("args", [])):
        if i + 1 <= G.get("argc", 0):
            blk["stmts"].append({"k": "assign", "dst": {"l": loff + i + 1}, "rv": {"k": "use", "a": copy.deepcopy(a)}, "sp": sp})
    ret_target = call.get("t")
    unwind_target = call.get("unwind") if isinstance(call.get("unwind"), int) else None
    for gb in G["blocks"]:
        nb = {"id": gb["id"] + boff, "stmts": [_shift(s, loff, boff) for s in gb["stmts"]]}
        if gb.get("cleanup") or blk.get("cleanup"):
            nb["cleanup"] = True
        t = gb["term"]
        if t["k"] == "return":
            nb["stmts"].append({"k": "assign", "dst": copy.deepcopy(call["dst"]), "rv": {"k": "use", "a": {"k": "move", "p": {"l": loff}}}, "sp": sp})
            nb["term"] = {"k": "goto", "t": ret_target, "sp": t.get("sp")} if ret_target is not None else {"k": "unreachable", "sp": t.get("sp")}
        elif t["k"] == "resume" and unwind_target is not None:
            nb["term"] = {"k": "goto", "t": unwind_target, "sp": t.get("sp")}
        else:
            nb["term"] = _shift_term(t, loff, boff)
        F["blocks"].append(nb)
    blk["term"] = {"k": "goto", "t": boff, "sp": sp, "inlined": G["path"]}
    F.setdefault("inlined", []).append(G["path"])
    # the callee's return place IS the call's destination when that is a whole local of the same type: results built by the callee
    # (`Ok(..)`, `Some(..)`) then appear as assignments to the caller's own place (in particular to _0 for a tail call), exactly as
    # if the body had been written in the caller
    d = call["dst"]
    if not d.get("p") and isinstance(d.get("l"), int) and d["l"] < loff and F["locals"][d["l"]].get("ty") == G["locals"][0].get("ty"):
        ret_l, dst_l = loff, d["l"]

        def ren(o):
            if isinstance(o, dict):
                if "f" in o and "k" not in o:
                    return
                for k, v in o.items():
                    if k == "l" and v == ret_l:
                        o[k] = dst_l
                    elif k != "sp":
                        ren(v)
            elif isinstance(o, list):
                for x in o:
                    ren(x)
        for nb in F["blocks"][boff:]:
            # drop the now trivial `dst = move dst`
            nb["stmts"] = [st for st in nb["stmts"] if not (st.get("k") == "assign" and not st["dst"].get("p") and st["dst"].get("l") == dst_l and st["rv"].get("k") == "use" and
                                                            st["rv"]["a"].get("k") in ("move", "copy") and st["rv"]["a"].get("p", {}).get("l") == ret_l and not st["rv"]["a"]["p"].get("p"))]
            ren(nb["stmts"])
            ren(nb["term"])


STD_DISCR = {"core::option::Option": {"None": 0, "Some": 1}, "core::result::Result": {"Ok": 0, "Err": 1},
             "core::ops::control_flow::ControlFlow": {"Continue": 0, "Break": 1}, "core::ops::ControlFlow": {"Continue": 0, "Break": 1}}


# enums of the analysed crates (filled by normalise from the fact files: variant -> discriminant value)
USER_DISCR = {}


def _known_variant(stmts, local, depth=0, names=False):
    """discriminant value of `local` at the end of a statement list, when its last assignment there builds a std enum variant
    (followed through plain moves); None when unknown"""
    for st in reversed(stmts):
        if st["k"] != "assign" or st["dst"].get("p") or st["dst"]["l"] != local:
            # a store through a projection of the local, or a borrow, would make this unsound: bail out on any mention as destination root
            if st["k"] == "assign" and st["dst"]["l"] == local:
                return None
            continue
        rv = st["rv"]
        if rv["k"] == "agg" and rv.get("ak") == "adt" and (rv.get("adt") in STD_DISCR or rv.get("adt") in USER_DISCR):
            tab = STD_DISCR.get(rv["adt"]) or USER_DISCR[rv["adt"]]
            return rv.get("variant") if names else tab.get(rv.get("variant"))
        if rv["k"] == "use" and rv["a"].get("k") in ("move", "copy") and not rv["a"]["p"].get("p") and depth < 4:
            # the moved-from local must have been set earlier in the same list
            idx = stmts.index(st)
            return _known_variant(stmts[:idx], rv["a"]["p"]["l"], depth + 1, names)
        return None
    return None


def _moved_from(stmts, local, depth=0):
    """the local whose value `local` holds at the end of the statement list, following whole-local moves made in it"""
    for i in range(len(stmts) - 1, -1, -1):
        st = stmts[i]
        if st["k"] == "assign" and st["dst"]["l"] == local:
            rv = st["rv"]
            if not st["dst"].get("p") and rv["k"] == "use" and rv["a"].get("k") in ("move", "copy") and not rv["a"]["p"].get("p") and depth < 4:
                return _moved_from(stmts[:i], rv["a"]["p"]["l"], depth + 1)
            return local
    return local


def _all_preds(F):
    preds = {}
    for b in F["blocks"]:
        t = b["term"]
        succ = []
        if isinstance(t.get("t"), int):
            succ.append(t["t"])
        if isinstance(t.get("unwind"), int):
            succ.append(t["unwind"])
        if t["k"] == "switch":
            succ += [tg for _, tg in t["targets"]] + [t["otherwise"]]
        if t["k"] == "asm":
            succ += [x for x in t.get("targets", []) if isinstance(x, int)]
        for x in succ:
            preds.setdefault(x, []).append(b["id"])
    return preds


def _tested_variant(F, allpreds, P, local, names=False):
    """variant of the std enum in `local` at the end of block P when P can only be reached over ONE edge of a `match` on that very
    local (a switch on its discriminant) and nothing assigns or mutably borrows it in between; None when unknown.  This is what the
    arm `other => return other` of `match r.read(..) { Err(e) if .. => .., other => return other }` knows on its Err-side entry."""
    ty = (F["locals"][local]["ty"] if local < len(F.get("locals", [])) else "") or ""
    adt = "core::result::Result" if ty.startswith("core::result::Result<") else "core::option::Option" if ty.startswith("core::option::Option<") else None
    if adt is None:
        return None
    cur = P
    for _ in range(8):
        for st in cur["stmts"]:
            if st["k"] == "assign" and st["dst"]["l"] == local:
                return None
            rv = st.get("rv", {})
            if rv.get("k") in ("ref", "rawptr") and rv.get("m") not in (False, None, "Const") and rv.get("p", {}).get("l") == local:
                return None
        ps = allpreds.get(cur["id"], [])
        if len(ps) != 1:
            return None
        S = F["blocks"][ps[0]]
        t = S["term"]
        if t["k"] == "goto" or (t["k"] in ("call", "assert", "drop") and t.get("t") == cur["id"] and not (t["k"] == "call" and t["dst"]["l"] == local) and
                                not (t["k"] == "drop" and t["p"].get("l") == local)):
            cur = S
            continue
        if t["k"] != "switch" or t["discr"].get("k") not in ("move", "copy") or t["discr"]["p"].get("p"):
            return None
        d = t["discr"]["p"]["l"]
        reads = [st for st in S["stmts"] if st["k"] == "assign" and st["dst"]["l"] == d and not st["dst"].get("p")]
        if len(reads) != 1 or reads[0]["rv"].get("k") != "discr" or reads[0]["rv"]["p"].get("l") != local or reads[0]["rv"]["p"].get("p"):
            # a test of something else (a match guard): pass through
            cur = S
            continue
        vals = [v for v, tg in t["targets"] if tg == cur["id"]]
        if len(vals) == 1 and t["otherwise"] != cur["id"]:
            v = vals[0]
        elif not vals and t["otherwise"] == cur["id"] and len(t["targets"]) == 1 and t["targets"][0][0] in (0, 1):
            v = 1 - t["targets"][0][0]
        else:
            return None
        inv = {n: k for k, n in STD_DISCR[adt].items()}
        if v not in inv:
            return None
        return inv[v] if names else v
    return None


def _pure_moves(B):
    """{dst: src} when the block only moves whole locals around (and ends in goto), else None"""
    if B.get("cleanup") or B["term"]["k"] != "goto":
        return None
    mv = {}
    for st in B["stmts"]:
        rv = st.get("rv", {})
        if st["k"] == "assign" and not st["dst"].get("p") and rv.get("k") == "use" and rv["a"].get("k") in ("move", "copy") and not rv["a"]["p"].get("p"):
            mv[st["dst"]["l"]] = rv["a"]["p"]["l"]
        else:
            return None
    return mv


def _sources(F, preds, target_id, local, depth=3):
    """[(P, statements of the forwarding blocks between P and the target, local to look up in P)] for the predecessors of a block,
    looking through up to `depth` forwarding blocks that only move locals"""
    out = []
    for pid in preds.get(target_id, []):
        P = F["blocks"][pid]
        out.append((P, [], local))
        mv = _pure_moves(P)
        if mv is not None and depth > 0:
            x = local
            n = 0
            while x in mv and n < 4:
                x = mv[x]
                n += 1
            for Q, extra, xl in _sources(F, preds, P["id"], x, depth - 1):
                out.append((Q, extra + P["stmts"], xl))
    return out


def thread_variants(F):
    """After a helper returning Option/Result was expanded, the caller's `match` on the result is reached from several copies of the
    helper's return, each knowing which variant it built. The dispatching block is cloned per such predecessor and the clone jumps
    straight to the arm for that variant (path duplication: sound, and it restores the dominance of the tests made inside the helper
    over the code of the arm)."""
    changed = False
    for _ in range(3):
        preds = {}
        for b in F["blocks"]:
            t = b["term"]
            if t["k"] == "goto" and isinstance(t.get("t"), int):
                preds.setdefault(t["t"], []).append(b["id"])
        did = False
        # `x?` on a result whose variant the predecessor has just built: P -> C: `_r = Try::branch(move x)` -> J: switch discr(_r).
        # branch(Ok/Some) is Continue, branch(Err/None) is Break: clone C and J for that predecessor and jump to the known arm.
        for C in list(F["blocks"]):
            ct = C["term"]
            if ct["k"] != "call" or not (ct.get("callee") or "").endswith("Try::branch") or C.get("cleanup") or not isinstance(ct.get("t"), int):
                continue
            if len(ct.get("args", [])) != 1 or ct["args"][0].get("k") not in ("move", "copy") or ct["args"][0]["p"].get("p") or ct["dst"].get("p"):
                continue
            mvC = {}
            okC = True
            for st in C["stmts"]:
                rv = st.get("rv", {})
                if st["k"] == "assign" and not st["dst"].get("p") and rv.get("k") == "use" and rv["a"].get("k") in ("move", "copy") and not rv["a"]["p"].get("p"):
                    mvC[st["dst"]["l"]] = rv["a"]["p"]["l"]
                else:
                    okC = False
            if not okC:
                continue
            J = F["blocks"][ct["t"]]
            jt = J["term"]
            if jt["k"] != "switch" or len(J["stmts"]) != 1 or J["stmts"][0]["k"] != "assign" or J["stmts"][0]["rv"].get("k") != "discr":
                continue
            if J["stmts"][0]["rv"]["p"].get("l") != ct["dst"]["l"] or J["stmts"][0]["rv"]["p"].get("p") or jt["discr"].get("k") not in ("move", "copy") or jt["discr"]["p"]["l"] != J["stmts"][0]["dst"]["l"]:
                continue
            x = ct["args"][0]["p"]["l"]
            n0 = 0
            while x in mvC and n0 < 4:
                x = mvC[x]
                n0 += 1
            work_c = _sources(F, preds, C["id"], x)
            for P, extra, xl in work_c:
                if P["term"]["k"] != "goto":
                    continue
                vn = _known_variant(P["stmts"], xl, names=True)
                if vn is None:
                    vn = _tested_variant(F, _all_preds(F), P, _moved_from(P["stmts"], xl), names=True)
                if vn not in ("Ok", "Some", "Err", "None"):
                    continue
                dv = 0 if vn in ("Ok", "Some") else 1
                hit = [tg for val, tg in jt["targets"] if val == dv]
                tgt = hit[0] if hit else jt["otherwise"]
                jclone = {"id": len(F["blocks"]), "stmts": copy.deepcopy(J["stmts"]), "term": {"k": "goto", "t": tgt, "sp": jt.get("sp"), "threaded_from": J["id"]}}
                F["blocks"].append(jclone)
                cterm = copy.deepcopy(ct)
                cterm["t"] = jclone["id"]
                cclone = {"id": len(F["blocks"]), "stmts": copy.deepcopy(extra) + copy.deepcopy(C["stmts"]), "term": cterm}
                F["blocks"].append(cclone)
                P["term"] = dict(P["term"])
                P["term"]["t"] = cclone["id"]
                did = changed = True
        # `x.is_ok()` / `is_err()` / `is_some()` / `is_none()` on a value whose variant the predecessor has just built (a helper that
        # re-wraps a Result, expanded): the call is replaced, per such predecessor, by the constant it must return
        PRED = {"Result::<T, E>::is_ok": ("Ok",), "Result::<T, E>::is_err": ("Err",), "Option::<T>::is_some": ("Some",), "Option::<T>::is_none": ("None",)}
        for C in list(F["blocks"]):
            ct = C["term"]
            if ct["k"] != "call" or C.get("cleanup") or not isinstance(ct.get("t"), int) or ct["dst"].get("p") or len(ct.get("args", [])) != 1:
                continue
            which = next((v for k, v in PRED.items() if (ct.get("callee") or "").endswith(k)), None)
            a0 = ct["args"][0]
            if which is None or a0.get("k") not in ("move", "copy") or a0["p"].get("p"):
                continue
            # the argument is a reference taken in this block to a whole local (or that local itself)
            target = a0["p"]["l"]
            okC = True
            for st in C["stmts"]:
                rv = st.get("rv", {})
                if st["k"] in ("storage_live", "storage_dead", "nop", "fake_read"):
                    continue
                if st["k"] == "assign" and not st["dst"].get("p") and rv.get("k") == "ref" and not rv["p"].get("p") and st["dst"]["l"] == target:
                    target = rv["p"]["l"]
                elif st["k"] == "assign" and not st["dst"].get("p") and rv.get("k") == "use" and rv["a"].get("k") in ("move", "copy") and not rv["a"]["p"].get("p") and st["dst"]["l"] == target:
                    target = rv["a"]["p"]["l"]
                else:
                    okC = False
            if not okC:
                continue
            for P, extra, xl in _sources(F, preds, C["id"], target):
                if P["term"]["k"] != "goto":
                    continue
                vn = _known_variant(P["stmts"], xl, names=True)
                if vn is None:
                    vn = _tested_variant(F, _all_preds(F), P, _moved_from(P["stmts"], xl), names=True)
                if vn not in ("Ok", "Some", "Err", "None"):
                    continue
                val = 1 if vn in which else 0
                clone = {"id": len(F["blocks"]), "stmts": copy.deepcopy(extra) + copy.deepcopy(C["stmts"]) +
                         [{"k": "assign", "dst": {"l": ct["dst"]["l"]}, "rv": {"k": "use", "a": {"k": "const", "ty": "bool", "value": val}}, "sp": ct.get("sp")}],
                         "term": {"k": "goto", "t": ct["t"], "sp": ct.get("sp"), "threaded_from": C["id"]}}
                F["blocks"].append(clone)
                P["term"] = dict(P["term"])
                P["term"]["t"] = clone["id"]
                did = changed = True
        if did:
            preds = {}
            for b in F["blocks"]:
                t0 = b["term"]
                if t0["k"] == "goto" and isinstance(t0.get("t"), int):
                    preds.setdefault(t0["t"], []).append(b["id"])
        for J in list(F["blocks"]):
            t = J["term"]
            if t["k"] != "switch" or J.get("cleanup") or t["discr"].get("k") not in ("move", "copy") or t["discr"]["p"].get("p"):
                continue
            d = t["discr"]["p"]["l"]
            # J: only plain moves and one discriminant read feeding the switch
            src = None
            ok = True
            moves = {}
            for st in J["stmts"]:
                if st["k"] != "assign" or st["dst"].get("p"):
                    ok = False
                    break
                rv = st["rv"]
                if rv["k"] == "discr" and st["dst"]["l"] == d and not rv["p"].get("p"):
                    src = rv["p"]["l"]
                elif rv["k"] == "use" and rv["a"].get("k") in ("move", "copy") and not rv["a"]["p"].get("p"):
                    moves[st["dst"]["l"]] = rv["a"]["p"]["l"]
                else:
                    ok = False
                    break
            if not ok or src is None:
                continue
            n = 0
            while src in moves and n < 4:
                src = moves[src]
                n += 1
            work = _sources(F, preds, J["id"], src)
            for P, extra, loc in work:
                if P["term"]["k"] != "goto":
                    continue
                v = _known_variant(P["stmts"], loc)
                if v is None:
                    v = _tested_variant(F, _all_preds(F), P, _moved_from(P["stmts"], loc))
                if v is None:
                    continue
                hit = [tg for val, tg in t["targets"] if val == v]
                tgt = hit[0] if hit else t["otherwise"]
                clone = {"id": len(F["blocks"]), "stmts": copy.deepcopy(extra) + copy.deepcopy(J["stmts"]), "term": {"k": "goto", "t": tgt, "sp": t.get("sp"), "threaded_from": J["id"]}}
                F["blocks"].append(clone)
                P["term"] = dict(P["term"])
                P["term"]["t"] = clone["id"]
                did = changed = True
        if not did:
            break
    return changed


def _known_const(stmts, local, depth=0):
    """integer/bool constant held by `local` at the end of a statement list (its last whole assignment there is a constant, followed
    through plain moves); None when unknown"""
    for idx in range(len(stmts) - 1, -1, -1):
        st = stmts[idx]
        if st["k"] != "assign" or st["dst"]["l"] != local:
            continue
        if st["dst"].get("p"):
            return None
        rv = st["rv"]
        if rv["k"] == "use" and rv["a"].get("k") == "const" and isinstance(rv["a"].get("value"), int) and not isinstance(rv["a"].get("value"), bool):
            return rv["a"]["value"]
        if rv["k"] == "use" and rv["a"].get("k") in ("move", "copy") and not rv["a"]["p"].get("p") and depth < 4:
            return _known_const(stmts[:idx], rv["a"]["p"]["l"], depth + 1)
        return None
    return None


def _discr_of(adt, variant):
    tab = STD_DISCR.get(adt) or USER_DISCR.get(adt) or {}
    return tab.get(variant)


def _eval_stmts(stmts, env, F=None):
    """constant propagation over a straight-line statement list. env maps a local to what it is known to hold: an int, or
    ("agg", adt, variant, [payload values or None]) for an enum value built a moment ago. Locals assigned anything else become
    unknown. Constants, moves, `!x`, enum construction, reading the payload of a known variant and reading a known discriminant
    count (comparisons are deliberately not evaluated: `state = K; if state == K` keeps its edge fact, which rules use to know the
    value of `state`)."""
    env = dict(env)
    for st in stmts:
        if st["k"] != "assign":
            continue
        dl = st["dst"]["l"]
        if st["dst"].get("p"):
            env.pop(dl, None)
            continue
        rv = st["rv"]
        val = None

        def opv(o):
            if o.get("k") == "const" and isinstance(o.get("value"), int) and not isinstance(o.get("value"), bool):
                return o["value"]
            if o.get("k") in ("move", "copy"):
                base = env.get(o["p"]["l"])
                proj = o["p"].get("p") or []
                if not proj:
                    return base
                # ((x as V).i) of a value known to be V(..)
                if isinstance(base, tuple) and len(proj) == 2 and proj[0].get("k") == "downcast" and proj[1].get("k") == "field" and str(proj[0].get("v")) == str(base[2]):
                    i = proj[1].get("i")
                    if isinstance(i, int) and i < len(base[3]):
                        return base[3][i]
            return None
        if rv["k"] == "use":
            val = opv(rv["a"])
        elif rv["k"] == "unop" and rv.get("op") == "Not":
            x = opv(rv["a"])
            ty = rv["a"].get("ty") or (rv["a"].get("p") or {}).get("ty")
            if ty is None and F is not None and rv["a"].get("k") in ("move", "copy") and not rv["a"]["p"].get("p"):
                ty = F["locals"][rv["a"]["p"]["l"]].get("ty")
            if x in (0, 1) and ty == "bool":
                val = 1 - x
        elif rv["k"] == "agg" and rv.get("ak") == "adt" and rv.get("variant") and (rv.get("adt") in STD_DISCR or rv.get("adt") in USER_DISCR):
            val = ("agg", rv["adt"], rv["variant"], [opv(o) for o in rv.get("ops", [])])
        elif rv["k"] == "discr" and not rv["p"].get("p"):
            base = env.get(rv["p"]["l"])
            if isinstance(base, tuple):
                val = _discr_of(base[1], base[2])
        if val is None:
            env.pop(dl, None)
        else:
            env[dl] = val
    return env


def _eval_term(B, env):
    """effect of a forwarding block's terminator: `Try::branch(x)` of a known Ok/Some/Err/None is Continue(payload) / Break(..)"""
    t = B["term"]
    if t["k"] == "call" and (t.get("callee") or "").endswith("Try::branch") and len(t.get("args", [])) == 1 and not t["dst"].get("p"):
        a = t["args"][0]
        env = dict(env)
        base = env.get(a["p"]["l"]) if a.get("k") in ("move", "copy") and not a["p"].get("p") else None
        if isinstance(base, tuple) and base[2] in ("Ok", "Some"):
            env[t["dst"]["l"]] = ("agg", "core::ops::control_flow::ControlFlow", "Continue", list(base[3][:1]) or [None])
        elif isinstance(base, tuple) and base[2] in ("Err", "None"):
            env[t["dst"]["l"]] = ("agg", "core::ops::control_flow::ControlFlow", "Break", [None])
        else:
            env.pop(t["dst"]["l"], None)
        return env
    return env


def _simple_stmts(B):
    for st in B["stmts"]:
        if st["k"] in ("storage_live", "storage_dead", "nop", "fake_read"):
            continue
        if st["k"] != "assign" or st["dst"].get("p") or st["rv"]["k"] not in ("use", "unop", "agg", "discr"):
            return False
    return True


def _simple_forward(B):
    """a block that only computes on locals and goes on (a goto, or a `Try::branch` call whose effect on a known value is known):
    its effect can be evaluated"""
    if B.get("cleanup") or not _simple_stmts(B):
        return False
    t = B["term"]
    if t["k"] == "goto":
        return True
    return t["k"] == "call" and (t.get("callee") or "").endswith("Try::branch") and isinstance(t.get("t"), int) and len(t.get("args", [])) == 1


def thread_consts(F):
    """Jump threading for flags: `let hit = matches!(..); if !hit { .. }` assigns a constant to a local on every way into a join,
    possibly negates it or carries it inside an Option/Result through a `?`, and then branches on it. The chain of blocks from the
    assignment to the branch is cloned for each predecessor on which the branch value is a known constant and the clone jumps
    straight to the arm for that constant (path duplication: sound), so the tests that decided the flag dominate the arm again."""
    changed = False
    for _ in range(32):
        allp = _all_preds(F)
        did = False
        for J in list(F["blocks"]):
            t = J["term"]
            if t["k"] != "switch" or J.get("cleanup") or t["discr"].get("k") not in ("move", "copy") or t["discr"]["p"].get("p") or not _simple_stmts(J):
                continue
            d = t["discr"]["p"]["l"]
            if F["locals"][d].get("ty") != "bool":
                continue
            # chains P -> (forwarding blocks)* -> J, walked backwards from J
            work = [(pid, []) for pid in allp.get(J["id"], [])]
            seen = set()
            while work:
                pid, tail = work.pop()
                if (pid, tuple(tail)) in seen or len(tail) > 4:
                    continue
                seen.add((pid, tuple(tail)))
                P = F["blocks"][pid]
                nxt = tail[0] if tail else J["id"]
                if P.get("cleanup") or not ((P["term"]["k"] == "goto" and P["term"].get("t") == nxt) or (_simple_forward(P) and P["term"].get("t") == nxt)):
                    continue
                env = _eval_stmts(P["stmts"], {}, F)
                env = _eval_term(P, env)
                for q in tail:
                    env = _eval_stmts(F["blocks"][q]["stmts"], env, F)
                    env = _eval_term(F["blocks"][q], env)
                env = _eval_stmts(J["stmts"], env, F)
                v = env.get(d)
                if isinstance(v, int) and P["term"]["k"] == "goto":
                    hit = [tg for val, tg in t["targets"] if val == v]
                    tgt = hit[0] if hit else t["otherwise"]
                    # clone the tail and J; P is redirected into the clones
                    ids = [len(F["blocks"]) + i for i in range(len(tail) + 1)]
                    for i, q in enumerate(tail):
                        Q = F["blocks"][q]
                        tq = copy.deepcopy(Q["term"])
                        tq["t"] = ids[i + 1]
                        tq["threaded_from"] = q
                        F["blocks"].append({"id": ids[i], "stmts": copy.deepcopy(Q["stmts"]), "term": tq})
                    F["blocks"].append({"id": ids[-1], "stmts": copy.deepcopy(J["stmts"]), "term": {"k": "goto", "t": tgt, "sp": t.get("sp"), "threaded_from": J["id"]}})
                    P["term"] = dict(P["term"])
                    P["term"]["t"] = ids[0]
                    did = changed = True
                    break
                if _simple_forward(P):
                    for q in allp.get(pid, []):
                        work.append((q, [pid] + tail))
            if did:
                break
        if not did:
            break
    return changed


def _changed_since_baseline(p, f):
    """the function's body differs from the pinned tree's (by block count, callee set or fingerprint), or it is new"""
    base = shapes().get("fns", {}).get(p)
    if base is None:
        if "{closure" in p or f.get("kind") == "Closure":
            # closures are not in the inventory: one that calls a function the pinned tree does not have was rewritten
            kn = known() or set()
            return any(b["term"]["k"] == "call" and (b["term"].get("callee") or "").split("::")[0] in ("rusl", "tiny_std", "tiny_start", "tiny_cli") and b["term"]["callee"] not in kn for b in f["blocks"])
        return True
    callees = sorted({(b["term"].get("callee") or "?") for b in f["blocks"] if b["term"]["k"] == "call"})
    return base.get("nblocks") != len(f["blocks"]) or base.get("callees") != callees or base.get("fp") != fingerprint(f)


def _eligible(p, f, kn):
    if p in kn or f.get("kind") == "Closure" or "{closure" in p or f.get("impl_trait") or f.get("is_test"):
        return False
    if len(f["blocks"]) > MAX_BLOCKS:
        return False
    if any(b["term"]["k"] == "call" and b["term"].get("callee") == p for b in f["blocks"]):
        return False          # self-recursive
    if "#" in p.rsplit("::", 1)[-1]:
        return False          # disambiguated duplicate path
    return True


SHAPES_FILE = os.path.join(HERE, "known_shapes.json")
_shapes = None


def shapes():
    global _shapes
    if _shapes is None:
        try:
            _shapes = json.load(open(SHAPES_FILE))
        except Exception:
            _shapes = {}
    return _shapes


def _rewrite_fields(o, ren):
    """field projections {k: field, adt, i, n}: n := baseline name for (adt, i)"""
    if isinstance(o, dict):
        if o.get("k") == "field" and "i" in o and (o.get("adt"), o.get("i")) in ren:
            o["n"] = ren[(o["adt"], o["i"])]
        if o.get("k") == "agg" and o.get("ak") == "adt" and isinstance(o.get("fields"), list):
            o["fields"] = [ren.get((o.get("adt"), i), n) for i, n in enumerate(o["fields"])]
        for v in o.values():
            _rewrite_fields(v, ren)
    elif isinstance(o, list):
        for v in o:
            _rewrite_fields(v, ren)


def _rewrite_strings(o, keys, ren):
    if isinstance(o, dict):
        for k, v in o.items():
            if k in keys and isinstance(v, str) and v in ren:
                o[k] = ren[v]
            else:
                _rewrite_strings(v, keys, ren)
    elif isinstance(o, list):
        for v in o:
            _rewrite_strings(v, keys, ren)


def fingerprint(f):
    """what a function body mentions besides calls: enum variants built, small integer constants, named constants, field names"""
    out = set()

    def visit(o):
        if isinstance(o, dict):
            if o.get("k") == "agg" and o.get("ak") == "adt" and o.get("variant"):
                out.add(f"{o.get('adt')}::{o['variant']}")
            if o.get("k") == "const":
                v = o.get("value")
                if isinstance(v, int) and abs(v) < (1 << 32):
                    out.add(f"#{v}")
                if o.get("path") and not o.get("promoted"):
                    out.add("c:" + str(o["path"]).rsplit("::", 1)[-1])
            if o.get("k") == "field" and o.get("n"):
                out.add("." + str(o["n"]))
            for k, v in o.items():
                if k != "sp":
                    visit(v)
        elif isinstance(o, list):
            for v in o:
                visit(v)
    visit(f["blocks"])
    return sorted(out)


def alias_renames(prog):
    """Renamed private items are given their baseline names back (fields by (type, position, type of field), functions by (parent,
    signature, callee set), constants by (parent, type, value)), so that rule tables written against the pinned tree keep applying.
    A match must be unique in both directions; everything else is left alone. Returns a list of 'new -> baseline' strings."""
    sh = shapes()
    if not sh:
        return []
    done = []
    # ---- private types that were renamed and/or moved (hoisted out of a function, nested into one): same crate, same kind and
    # the same field types, unique in both directions -> the baseline path is restored everywhere it is spelled
    base_adts = sh.get("adts", {})
    miss_a = [a for a in base_adts if a not in prog.adts and a.split("::")[0] in prog.crates]
    new_a = [a for a in prog.adts if a not in base_adts and a.split("::")[0] in prog.crates]
    aren = {}
    if miss_a and new_a:
        def shape_of(path, variants):
            return tuple(tuple(str(t).replace(path, "Self") for t in v) for v in variants)
        bshape = {a: shape_of(a, [[x[1] for x in bv] for bv in base_adts[a]]) for a in miss_a}
        nshape = {a: shape_of(a, [[f["ty"] for f in v["fields"]] for v in prog.adts[a].get("variants", [])]) for a in new_a}
        for k in miss_a:
            cs = [n for n in new_a if n.split("::")[0] == k.split("::")[0] and nshape[n] == bshape[k] and bshape[k] and any(bshape[k])]
            back = [k2 for k2 in miss_a if cs and bshape[k2] == nshape[cs[0]] and k2.split("::")[0] == k.split("::")[0]]
            if len(cs) == 1 and back == [k] and "Public" not in str(prog.adts[cs[0]].get("vis")):
                aren[cs[0]] = k
    if aren:
        import re as _re
        pats = [(_re.compile(r"(?<![A-Za-z0-9_])" + _re.escape(n) + r"(?![A-Za-z0-9_])"), k) for n, k in sorted(aren.items(), key=lambda x: -len(x[0]))]

        def rep_s(x):
            for pat, k in pats:
                if pat.pattern and pat.search(x):
                    x = pat.sub(k, x)
            return x

        def deep(o):
            if isinstance(o, dict):
                if "f" in o and "k" not in o and "l" in o:
                    return o
                return {(rep_s(kk) if isinstance(kk, str) else kk): deep(v) for kk, v in o.items()}
            if isinstance(o, list):
                return [deep(x) for x in o]
            if isinstance(o, str):
                return rep_s(o)
            return o
        short = {n.rsplit("::", 1)[-1] for n in aren}
        for pth in list(prog.fns):
            f = prog.fns[pth]
            # only functions that can mention the type at all are rewritten (cheap pre-filter on the serialised path / signature)
            blob_hit = any(sn in pth or sn in str(f.get("sig")) for sn in short) or any(sn in str(loc.get("ty")) for loc in f.get("locals", []) for sn in short)
            if not blob_hit:
                continue
            f2 = deep(f)
            del prog.fns[pth]
            f2["path"] = rep_s(pth)
            prog.fns[f2["path"]] = f2
        for n, k in aren.items():
            prog.adts[k] = deep(prog.adts.pop(n))
            done.append(f"type {n} -> {k}")
        prog.impls[:] = [deep(i) for i in prog.impls]
    # ---- struct fields
    fren = {}
    for a, base in sh.get("adts", {}).items():
        d = prog.adts.get(a)
        if not d or len(d.get("variants", [])) != len(base):
            continue
        for vi, (v, bv) in enumerate(zip(d["variants"], base)):
            if len(v["fields"]) != len(bv) or [f["ty"] for f in v["fields"]] != [x[1] for x in bv]:
                continue
            for i, (f, (bn, bt)) in enumerate(zip(v["fields"], bv)):
                if f["name"] != bn:
                    fren[(a, i)] = bn
                    done.append(f"field {a}.{f['name']} -> {bn}")
                    f["name"] = bn
    if fren:
        for f in prog.fns.values():
            _rewrite_fields(f["blocks"], fren)
            _rewrite_fields(f.get("names", []), fren)
    # ---- functions
    kn = known() or set()
    base_fns = sh.get("fns", {})
    missing = [k for k in base_fns if k not in prog.fns and base_fns[k].get("crate") in prog.crates]
    new = [p for p, f in prog.fns.items() if p not in kn and f.get("kind") != "Closure" and "{closure" not in p]

    def parent(p):
        return p.rsplit("::", 1)[0]

    def callees(f):
        return {(b["term"].get("callee") or "?") for b in f["blocks"] if b["term"]["k"] == "call"}
    fn_ren = {}
    # several rounds: leaf helpers are matched first; their new names are then translated in their callers' callee sets and in the
    # parent paths of nested items, which lets the callers (and items nested in renamed functions) match in the next round
    for _round in range(4):
        def tr(name):
            if name in fn_ren:
                return fn_ren[name]
            for n0, k0 in fn_ren.items():
                if name.startswith(n0 + "::"):
                    return k0 + name[len(n0):]
            return name
        scores = []
        for k in missing:
            if k in fn_ren.values():
                continue
            b = base_fns[k]
            for n in new:
                if n in fn_ren:
                    continue
                f = prog.fns[n]
                if parent(tr(n)) != parent(k) or f.get("sig") != b.get("sig") or f.get("argc") != b.get("argc"):
                    continue
                # compare what both call, leaving out local callees whose own renaming is not settled yet (a renamed helper calling
                # renamed helpers would otherwise never match)
                def is_local(c):
                    return c.split("::")[0] in prog.crates
                cs = {tr(c) for c in callees(f)}
                cs = {c for c in cs if not is_local(c) or c in base_fns or c in kn}
                bs = {c for c in b.get("callees", []) if not is_local(c) or c in prog.fns or c in fn_ren.values()}
                inter, union = len(cs & bs), (len(cs | bs) or 1)
                sim = 1.0 if (not cs and not bs) else inter / union
                nb = b.get("nblocks") or 1
                size = 1.0 - min(1.0, abs(len(f["blocks"]) - nb) / max(nb, 1))
                fpn, fpb = set(fingerprint(f)), set(b.get("fp", []))
                fps = 1.0 if (not fpn and not fpb) else len(fpn & fpb) / (len(fpn | fpb) or 1)
                if sim >= 0.5:
                    scores.append((sim + 0.25 * size + 0.5 * fps, k, n))
        # accept pairs that are each other's best candidate by a clear margin
        best_for_k, best_for_n = {}, {}
        for sc, k, n in sorted(scores, reverse=True):
            best_for_k.setdefault(k, []).append((sc, n))
            best_for_n.setdefault(n, []).append((sc, k))
        added = False
        for k, lst in best_for_k.items():
            sc, n = lst[0]
            if len(lst) > 1 and lst[1][0] > sc - 0.1:
                continue
            back = best_for_n[n]
            if back[0][1] != k or (len(back) > 1 and back[1][0] > back[0][0] - 0.1):
                continue
            fn_ren[n] = k
            added = True
        if not added:
            break
    if fn_ren:
        for n, k in fn_ren.items():
            f = prog.fns.pop(n)
            f["renamed_from"] = n
            f["path"] = k
            prog.fns[k] = f
            done.append(f"fn {n} -> {k}")
        # closures and nested items of the renamed functions, and every reference to them
        pref = {n + "::": k + "::" for n, k in fn_ren.items()}
        for p2 in list(prog.fns):
            for np, kp in pref.items():
                if p2.startswith(np):
                    f = prog.fns.pop(p2)
                    f["path"] = kp + p2[len(np):]
                    prog.fns[f["path"]] = f
                    fn_ren[p2] = f["path"]
        for f in prog.fns.values():
            _rewrite_strings(f["blocks"], ("callee", "resolved", "closure", "fn"), fn_ren)
            if f.get("parent") in fn_ren:
                f["parent"] = fn_ren[f["parent"]]
    # ---- constants
    base_c = sh.get("consts", {})
    miss_c = [k for k in base_c if k not in prog.consts and k.split("::")[0] in prog.crates]
    new_c = [c for c in prog.consts if c not in base_c and c.split("::")[0] in prog.crates]
    cren = {}
    for k in miss_c:
        ty, val = base_c[k]
        def cval(d):
            if d.get("value") not in (None, "indirect", "slice", "zst"):
                return d.get("value")
            return ("mem:" + ",".join(str(x) for x in d["mem"])) if d.get("mem") else None
        ms = [c for c in new_c if parent(c) == parent(k) and prog.consts[c].get("ty") == ty and cval(prog.consts[c]) == val]
        same = sorted(k2 for k2 in miss_c if parent(k2) == parent(k) and base_c[k2] == [ty, val])
        # equal type and value: which new name stands for which old one makes no difference, pair them in order
        if len(ms) == len(same) and k in same:
            cand_new = sorted(ms)[same.index(k)]
            if cand_new not in cren:
                cren[cand_new] = k
    if cren:
        for c, k in cren.items():
            prog.consts[k] = prog.consts[c]
            done.append(f"const {c} -> {k}")
        for f in prog.fns.values():
            _rewrite_strings(f["blocks"], ("path",), cren)
    return done


def normalise(prog):
    """alias renamed private items to their baseline names, then expand new private helpers at their call sites;
    returns the list of normalisation steps taken"""
    kn = known()
    if kn is None:
        return []
    USER_DISCR.clear()
    for a, d in prog.adts.items():
        if d.get("kind") == "Enum" and all("discr" in v for v in d.get("variants", [])):
            USER_DISCR[a] = {v["name"]: v["discr"] for v in d["variants"]}
    aliased = alias_renames(prog)
    prog.aliased = aliased
    # functions whose body differs from the pinned tree's get flag threading (identity on the pinned tree)
    rewritten = {p for p, f in prog.fns.items() if f.get("blocks") and f.get("crate") in prog.crates and _changed_since_baseline(p, f)}
    expanded = set()
    for _ in range(MAX_ROUNDS):
        new = {p: f for p, f in prog.fns.items() if _eligible(p, f, kn)}
        if not new:
            break
        did = False
        for p, F in list(prog.fns.items()):
            n_blocks = len(F["blocks"])
            for bidx in range(n_blocks):
                t = F["blocks"][bidx]["term"]
                if t["k"] != "call" or F["blocks"][bidx].get("cleanup"):
                    continue
                cal = t.get("callee")
                G = new.get(cal)
                if G is None or G is F or t.get("dst") is None:
                    continue
                # helpers are expanded bottom-up: one that still calls another new helper waits for the next round
                if any(b["term"]["k"] == "call" and b["term"].get("callee") in new and b["term"].get("callee") != cal for b in G["blocks"]):
                    continue
                inline_call(F, bidx, G)
                expanded.add(cal)
                did = True
        if not did:
            break
    # immediately invoked closures: a closure that is new relative to the baseline, takes no arguments and is only ever called
    # (`let steps = || -> Result<()> { .. }; match steps() { .. }`) is expanded at its call like a helper; its captured variables
    # are then read through the closure value, which provenance resolves field by field
    for p, F in list(prog.fns.items()):
        if F.get("kind") == "Closure" or not F.get("blocks"):
            continue
        for bidx in range(len(F["blocks"])):
            blk = F["blocks"][bidx]
            t = blk["term"]
            if t["k"] != "call" or blk.get("cleanup") or not (t.get("callee") or "").endswith(("FnOnce::call_once", "FnMut::call_mut", "Fn::call")) or len(t.get("args", [])) != 2:
                continue
            a0 = t["args"][0]
            if a0.get("k") not in ("move", "copy") or a0["p"].get("p"):
                continue
            cl = a0["p"]["l"]
            # the closure value (or a reference to it): find the one aggregate that defines it in F
            def closure_of(local, depth=0):
                defs = [(b2, st) for b2 in F["blocks"] for st in b2["stmts"] if st["k"] == "assign" and st["dst"]["l"] == local and not st["dst"].get("p")]
                if len(defs) != 1 or depth > 3:
                    return None, None
                rv = defs[0][1]["rv"]
                if rv["k"] == "agg" and rv.get("ak") == "closure":
                    return rv.get("closure") or rv.get("adt"), local
                if rv["k"] == "ref" and not rv["p"].get("p"):
                    return closure_of(rv["p"]["l"], depth + 1)
                if rv["k"] == "use" and rv["a"].get("k") in ("move", "copy") and not rv["a"]["p"].get("p"):
                    return closure_of(rv["a"]["p"]["l"], depth + 1)
                return None, None
            cpath, cval = closure_of(cl)
            G = prog.fns.get(cpath) if cpath else None
            if G is None or cpath in kn or G.get("argc") != 1 or len(G["blocks"]) > MAX_BLOCKS * 2:
                continue
            # called exactly once and never handed to anybody else
            uses = sum(1 for b2 in F["blocks"] if b2["term"]["k"] == "call" for a in b2["term"].get("args", []) if a.get("k") in ("move", "copy") and a["p"]["l"] in (cl, cval))
            if uses != 1:
                continue
            inline_call(F, bidx, G)
            expanded.add(cpath)
    for f in prog.fns.values():
        if f.get("inlined"):
            thread_variants(f)
    for p, f in prog.fns.items():
        if p in rewritten or f.get("inlined"):
            thread_consts(f)
    # drop helpers that are no longer called and are not part of the public surface
    still_called = {b["term"].get("callee") for f in prog.fns.values() for b in f["blocks"] if b["term"]["k"] == "call"}
    for p in list(expanded):
        f = prog.fns.get(p)
        if f is not None and p not in still_called and f.get("vis") != "Public":
            del prog.fns[p]
    return aliased + sorted(expanded)
