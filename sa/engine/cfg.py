"""Per-function control-flow graph utilities over the MIR facts."""
from collections import defaultdict, deque


def span_str(sp):
    if not sp:
        return "?"
    s = f"{sp.get('f')}:{sp.get('l')}"
    if sp.get("m"):
        s += f" (in {sp['m']} expansion)"
    return s


class Edge:
    __slots__ = ("src", "dst", "kind", "val")

    def __init__(self, src, dst, kind, val=None):
        self.src, self.dst, self.kind, self.val = src, dst, kind, val

    def __repr__(self):
        v = "" if self.val is None else f"={self.val}"
        return f"bb{self.src}->{self.dst}[{self.kind}{v}]"


class Cfg:
    """CFG of one function. Cleanup (unwind) blocks are excluded by default."""

    def __init__(self, fn, with_unwind=False):
        self.fn = fn
        self.blocks = fn["blocks"]
        self.n = len(self.blocks)
        self.cleanup = {b["id"] for b in self.blocks if b.get("cleanup")}
        self.succ = defaultdict(list)
        self.pred = defaultdict(list)
        for b in self.blocks:
            i = b["id"]
            if i in self.cleanup and not with_unwind:
                continue
            t = b["term"]
            k = t["k"]
            es = []
            if k == "goto":
                es.append(Edge(i, t["t"], "goto"))
            elif k == "switch":
                d = t["discr"]
                if d.get("k") == "const" and isinstance(d.get("value"), int):
                    # constant discriminant (cfg!(..) / debug_assertions): only the matching edge is feasible
                    hit = [tgt for v, tgt in t["targets"] if v == d["value"]]
                    es.append(Edge(i, hit[0] if hit else t["otherwise"], "goto"))
                else:
                    for v, tgt in t["targets"]:
                        es.append(Edge(i, tgt, "sw", v))
                    es.append(Edge(i, t["otherwise"], "sw", "otherwise"))
            elif k in ("call", "drop", "assert"):
                if t.get("t") is not None:
                    es.append(Edge(i, t["t"], "ret" if k == "call" else k))
                if with_unwind and t.get("unwind") is not None:
                    es.append(Edge(i, t["unwind"], "unwind"))
            elif k == "asm":
                for tg in t.get("targets", []):
                    es.append(Edge(i, tg, "ret"))
            # return/unreachable/resume/abort/tailcall: no successors
            for e in es:
                self.succ[i].append(e)
                self.pred[e.dst].append(e)
        self._thread_bool_flags()
        self._dom = None
        self._reach_cache = {}
        # unreachable-terminator blocks (otherwise edges into them are infeasible)
        self.unreachable_blocks = {b["id"] for b in self.blocks
                                   if b["term"]["k"] == "unreachable" and not b["stmts"]}

    def _thread_bool_flags(self):
        """Jump threading for `matches!`/`&&`/`||` lowering: a block that only dispatches on a bool temporary which every
        predecessor has just set to a constant is bypassed (pred -> the target its constant selects).  Sound for reachability:
        the dispatcher block has no statements."""
        self.threaded = {}
        for b in self.blocks:
            i = b["id"]
            t = b["term"]
            if b["stmts"] or t["k"] != "switch" or i in self.cleanup:
                continue
            d = t["discr"]
            if d.get("k") not in ("copy", "move") or d["p"].get("p"):
                continue
            f = d["p"]["l"]
            preds = list(self.pred.get(i, []))
            if not preds:
                continue
            for e in preds:
                if e.kind != "goto":
                    continue
                pb = self.blocks[e.src]
                val = None
                for s in pb["stmts"]:
                    if s["k"] == "assign" and not s["dst"].get("p") and s["dst"]["l"] == f:
                        rv = s["rv"]
                        if rv["k"] == "use" and rv["a"].get("k") == "const" and isinstance(rv["a"].get("value"), int):
                            val = rv["a"]["value"]
                        else:
                            val = None
                if val is None:
                    continue
                hit = [tgt for v, tgt in t["targets"] if v == val]
                tgt = hit[0] if hit else t["otherwise"]
                # redirect e.src -> i  into  e.src -> tgt
                self.succ[e.src] = [x for x in self.succ[e.src] if x is not e]
                self.pred[i] = [x for x in self.pred[i] if x is not e]
                ne = Edge(e.src, tgt, "goto")
                self.succ[e.src].append(ne)
                self.pred[tgt].append(ne)
                self.threaded[(e.src, i)] = tgt

    # ------------------------------------------------------------------
    def block(self, i):
        return self.blocks[i]

    def term(self, i):
        return self.blocks[i]["term"]

    def live_blocks(self):
        """Blocks reachable from entry over non-unwind edges."""
        return self.reachable_from(0)

    def reachable_from(self, start, avoid=frozenset(), avoid_edges=None):
        """Set of blocks reachable from block `start` (inclusive) without entering `avoid`."""
        seen = set()
        dq = deque([start])
        if start in avoid:
            return seen
        seen.add(start)
        while dq:
            b = dq.popleft()
            for e in self.succ[b]:
                if e.dst in avoid or e.dst in seen:
                    continue
                if avoid_edges and (e.src, e.dst) in avoid_edges:
                    continue
                if e.dst in self.unreachable_blocks:
                    continue
                seen.add(e.dst)
                dq.append(e.dst)
        return seen

    def reachable_from_edge(self, edge, avoid=frozenset()):
        return self.reachable_from(edge.dst, avoid)

    def return_blocks(self):
        return [b["id"] for b in self.blocks if b["term"]["k"] == "return" and b["id"] not in self.cleanup]

    def dominators(self):
        """dom[b] = set of blocks dominating b (including b). Only for live blocks."""
        if self._dom is not None:
            return self._dom
        live = self.live_blocks()
        order = self._rpo()
        dom = {b: set(live) for b in live}
        dom[0] = {0}
        changed = True
        while changed:
            changed = False
            for b in order:
                if b == 0:
                    continue
                ps = [e.src for e in self.pred[b] if e.src in live]
                if not ps:
                    continue
                new = set.intersection(*(dom[p] for p in ps)) | {b}
                if new != dom[b]:
                    dom[b] = new
                    changed = True
        self._dom = dom
        return dom

    def _rpo(self):
        seen, order = set(), []

        def dfs(b):
            stack = [(b, iter(self.succ[b]))]
            seen.add(b)
            while stack:
                node, it = stack[-1]
                adv = False
                for e in it:
                    if e.dst not in seen and e.dst not in self.unreachable_blocks:
                        seen.add(e.dst)
                        stack.append((e.dst, iter(self.succ[e.dst])))
                        adv = True
                        break
                if not adv:
                    order.append(node)
                    stack.pop()
        dfs(0)
        order.reverse()
        return order

    def dominates(self, a, b):
        d = self.dominators()
        return b in d and a in d[b]

    def back_edges(self):
        d = self.dominators()
        res = []
        for b in d:
            for e in self.succ[b]:
                if e.dst in d and e.dst in d[b]:
                    res.append(e)
        return res

    def in_cycle(self, b):
        """True when block b can reach itself."""
        for e in self.succ[b]:
            if b in self.reachable_from(e.dst):
                return True
        return False

    def cycle_blocks(self):
        live = self.live_blocks()
        return {b for b in live if self.in_cycle(b)}

    def find_path(self, start, goal_pred, avoid=frozenset()):
        """BFS path (list of block ids) from start to a block satisfying goal_pred."""
        prev = {start: None}
        dq = deque([start])
        while dq:
            b = dq.popleft()
            if goal_pred(b) and (b != start or True):
                path = []
                while b is not None:
                    path.append(b)
                    b = prev[b]
                return list(reversed(path))
            for e in self.succ[b]:
                if e.dst in prev or e.dst in avoid or e.dst in self.unreachable_blocks:
                    continue
                prev[e.dst] = b
                dq.append(e.dst)
        return None

    def edge_dominates(self, edge, b):
        """Every path from entry to b passes through `edge` (src->dst)."""
        if b == edge.dst and len([e for e in self.pred[b] if e.src in self.live_blocks()]) == 1:
            return True
        # remove the edge, see if b is still reachable
        r = self.reachable_from(0, avoid_edges={(edge.src, edge.dst)})
        # careful: parallel edges src->dst with different values share the pair; handled by callers
        return b not in r

    # ------------------------------------------------------------------
    def calls(self, pred=None):
        """Yield (bb, term) for call terminators in live, non-cleanup blocks."""
        live = self.live_blocks()
        for b in self.blocks:
            if b["id"] not in live:
                continue
            t = b["term"]
            if t["k"] in ("call", "tailcall") and (pred is None or pred(t)):
                yield b["id"], t

    def render_path(self, path):
        out = []
        for b in path:
            t = self.blocks[b]["term"]
            desc = t["k"]
            if t["k"] == "call":
                desc = f"call {t.get('callee') or '<indirect>'}"
            out.append(f"bb{b}@{span_str(t.get('sp'))}: {desc}")
        return out


def callee_name(t):
    """Best static callee of a call terminator: resolved impl if known, else declared."""
    return t.get("resolved") or t.get("callee")


def callee_is(t, *names):
    c = t.get("callee")
    r = t.get("resolved")
    for n in names:
        if c == n or r == n:
            return True
    return False


def callee_matches(t, *subs):
    c = t.get("callee") or ""
    r = t.get("resolved") or ""
    return any(s in c or s in r for s in subs)


import re as _re
_SYSCALL_RE = _re.compile(r"^sc::(?:\w+::)*syscall\d$")


def is_raw_syscall(name):
    """callee path of the sc crate's syscallN functions (what `syscall!` expands to)."""
    return bool(name) and bool(_SYSCALL_RE.match(name))
