"""K5: atomic-operation inventory."""
import re

from .cfg import Cfg
from .prov import Prov, const_value, strip_casts, show

ATOMIC_RE = re.compile(r"^core::sync::atomic::Atomic(?:::<[^>]*>|<[^>]*>|U32|Bool|Usize|U64|I32|Ptr<[^>]*>)?::(\w+)$")
ORDER_RANK = {"Relaxed": 0, "Release": 1, "Acquire": 1, "AcqRel": 2, "SeqCst": 3}


def is_acquire(o):
    return o in ("Acquire", "AcqRel", "SeqCst")


def is_release(o):
    return o in ("Release", "AcqRel", "SeqCst")


def ordering_of(e):
    e = strip_casts(e)
    if isinstance(e, tuple) and e[0] == "agg" and e[1] == "core::sync::atomic::Ordering":
        return e[2]
    if isinstance(e, tuple) and e[0] == "phi":
        vals = {ordering_of(x) for x in e[1]}
        if len(vals) == 1:
            return vals.pop()
        return "phi:" + "|".join(sorted(str(v) for v in vals))
    return None


def target_of(e):
    """Where does the atomic live: ('field', adt, name) / ('param', name) / ('static', path) / ('expr', shown)."""
    x = e
    while isinstance(x, tuple):
        if x[0] in ("ref", "addr"):
            x = x[2]
            continue
        if x[0] == "cast":
            x = x[2]
            continue
        if x[0] == "field":
            return ("field", x[3], x[2], x[1])
        if x[0] == "param":
            return ("param", x[2])
        if x[0] == "deref":
            x = x[1]
            continue
        if x[0] == "call":
            # e.g. NonNull::as_ref(ptr), &*ptr wrappers, AtomicU32::from_ptr
            if x[2]:
                inner = target_of(x[2][0])
                return ("via", x[1], inner)
            return ("expr", show(e))
        break
    return ("expr", show(e))


class AtomicOp:
    def __init__(self, fn, bb, term, op, recv, target, args, orderings, span):
        self.fn, self.bb, self.term, self.op = fn, bb, term, op
        self.recv, self.target, self.args, self.orderings, self.span = recv, target, args, orderings, span

    @property
    def success_order(self):
        return self.orderings[0] if self.orderings else None

    def const_args(self):
        return [const_value(a) for a in self.args]

    def __repr__(self):
        return f"{self.fn['path']}@bb{self.bb}: {self.op}{self.const_args()} {self.orderings} on {self.target[:3]}"


def inventory(fn, cfg=None, prov=None):
    cfg = cfg or Cfg(fn)
    prov = prov or Prov(fn, cfg)
    ops = []
    for bb, t in cfg.calls():
        c = t.get("callee") or ""
        m = ATOMIC_RE.match(c)
        if not m:
            continue
        op = m.group(1)
        if op in ("new", "from_ptr", "as_ptr", "get_mut", "into_inner", "from_mut"):
            continue
        at = (bb, len(cfg.block(bb)["stmts"]))
        exprs = [prov.operand(a, at) for a in t["args"]]
        recv = exprs[0] if exprs else None
        orderings = []
        vals = []
        for e in exprs[1:]:
            o = ordering_of(e)
            if o is not None:
                orderings.append(o)
            else:
                vals.append(e)
        ops.append(AtomicOp(fn, bb, t, op, recv, target_of(recv) if recv else None, vals, orderings, t.get("sp")))
    return ops
