"""K8: tokenizer and a small register-transfer interpreter for the x86_64 (Intel syntax) and aarch64 templates used by
tiny-std's `__clone` trampoline and `_start`.  Straight-line symbolic execution with a fork at the conditional branch.
Values are symbolic terms: ('arg', n) incoming C-ABI argument n (1-based), ('const', v), ('stackarg', k) k-th stack-passed arg,
('newsp', base_term, offset) pointer into the new thread's stack, ('mem', slot) loaded value, ('unk', text).
Anything the interpreter does not understand is recorded in `unknown` (rules fail closed on it).
"""
import re

X86_SYSV_ARGS = ["rdi", "rsi", "rdx", "rcx", "r8", "r9"]
X86_SUB = {  # sub-register -> (full, kind)
    "eax": "rax", "ax": "rax", "al": "rax", "ebx": "rbx", "ecx": "rcx", "edx": "rdx", "esi": "rsi", "edi": "rdi", "ebp": "rbp", "esp": "rsp",
    "r8d": "r8", "r9d": "r9", "r10d": "r10", "r11d": "r11", "r12d": "r12", "r13d": "r13", "r14d": "r14", "r15d": "r15",
}
X86_CALLEE_SAVED = {"rbx", "rbp", "r12", "r13", "r14", "r15"}


def split_template(t):
    """global_asm!/asm! templates arrive as one string with newlines between the string pieces."""
    lines = []
    for raw in t.replace(";", "\n").split("\n"):
        s = raw.strip()
        if not s or s.startswith("//") or s.startswith("#"):
            continue
        lines.append(s)
    return lines


def tokenize(line):
    m = re.match(r"^([A-Za-z_.0-9$]+:)?\s*([a-zA-Z.][a-zA-Z0-9.]*)?\s*(.*)$", line)
    label, mnem, rest = m.group(1), m.group(2), m.group(3)
    ops = [o.strip() for o in split_operands(rest)] if rest else []
    return (label[:-1] if label else None), (mnem.lower() if mnem else None), ops


def split_operands(s):
    out, depth, cur = [], 0, ""
    for ch in s:
        if ch == "[":
            depth += 1
        if ch == "]":
            depth -= 1
        if ch == "," and depth == 0:
            out.append(cur)
            cur = ""
        else:
            cur += ch
    if cur.strip():
        out.append(cur)
    return out


class X86State:
    def __init__(self, nargs):
        self.reg = {}
        for i, r in enumerate(X86_SYSV_ARGS):
            if i < nargs:
                self.reg[r] = ("arg", i + 1)
        self.stackargs = {8 * (k + 1): ("arg", 7 + k) for k in range(max(0, nargs - 6))}
        self.newstack = {}      # offset -> value (relative to aligned new stack top)
        self.unknown = []
        self.events = []        # ('syscall', regs snapshot) / ('call', target) / ('stack', text) / ('ret',)
        self.newsp = None       # register holding the new stack pointer and its current offset

    def full(self, r):
        return X86_SUB.get(r, r)

    def get(self, op):
        op = op.strip()
        if re.match(r"^-?\d+$", op) or re.match(r"^0x[0-9a-fA-F]+$", op):
            return ("const", int(op, 0))
        if op.startswith("["):
            return self.load(op)
        r = self.full(op)
        return self.reg.get(r, ("unk", r))

    def addr(self, op):
        inner = op.strip()[1:-1].replace(" ", "")
        m = re.match(r"^(?:(\d+)\+)?([a-z0-9]+)(?:\+(\d+))?$", inner)
        if not m:
            return None
        off = int(m.group(1) or 0) + int(m.group(3) or 0)
        return m.group(2), off

    def load(self, op):
        a = self.addr(op)
        if a is None:
            self.unknown.append("load " + op)
            return ("unk", op)
        base, off = a
        if base == "rsp":
            if self.reg.get("rsp") is not None and self.reg["rsp"][0] == "newsp":
                return self.newstack.get(self.reg["rsp"][2] + off, ("unk", f"newstack[{off}]"))
            return self.stackargs.get(off, ("unk", f"[rsp+{off}]"))
        v = self.reg.get(base)
        if v is not None and v[0] == "newsp":
            return self.newstack.get(v[2] + off, ("unk", "newstack"))
        self.unknown.append("load " + op)
        return ("unk", op)

    def store(self, op, val):
        a = self.addr(op)
        if a is None:
            self.unknown.append("store " + op)
            return
        base, off = a
        v = self.reg.get(base)
        if v is not None and v[0] == "newsp":
            self.newstack[v[2] + off] = val
        else:
            self.events.append(("stack", f"store to {op}"))


def run_x86(lines, nargs=8):
    """Returns (parent_state, child_state) after interpreting the trampoline; the fork happens at the first conditional jump
    that follows a syscall (`test eax,eax; jnz 1f`)."""
    st = X86State(nargs)
    i = 0
    n = len(lines)
    forked = None
    while i < n:
        label, mnem, ops = tokenize(lines[i])
        i += 1
        if mnem is None or mnem.startswith("."):
            continue
        if mnem == "xor" and len(ops) == 2 and st.full(ops[0]) == st.full(ops[1]):
            st.reg[st.full(ops[0])] = ("const", 0)
        elif mnem == "mov" and len(ops) == 2:
            dst, src = ops
            if dst.startswith("["):
                st.store(dst, st.get(src))
            else:
                val = st.get(src)
                full = st.full(dst)
                if dst in ("al",) and st.reg.get(full) == ("const", 0) and val[0] == "const":
                    st.reg[full] = ("const", val[1] & 0xFF)
                elif dst in X86_SUB and dst not in ("eax", "edi", "esi", "edx", "ecx", "ebp") and st.reg.get(full, ("const", 0))[0] != "const":
                    st.unknown.append(f"partial write {dst}")
                    st.reg[full] = ("unk", lines[i - 1])
                else:
                    st.reg[full] = val
        elif mnem == "and" and len(ops) == 2 and ops[1].strip() in ("-16", "0xfffffffffffffff0"):
            r = st.full(ops[0])
            st.reg[r] = ("newsp", st.reg.get(r), 0)
        elif mnem == "sub" and len(ops) == 2 and st.reg.get(st.full(ops[0]), ("x",))[0] == "newsp":
            r = st.full(ops[0])
            c = st.get(ops[1])
            if c[0] == "const":
                st.reg[r] = ("newsp", st.reg[r][1], st.reg[r][2] - c[1])
            else:
                st.unknown.append("sub " + ops[1])
        elif mnem == "syscall":
            st.events.append(("syscall", dict(st.reg)))
            rax = st.reg.get("rax")
            if rax == ("const", 56) and forked is None:
                # clone: the child continues on the new stack
                st.clone_sp = st.reg.get("rsi")
            st.reg["rax"] = ("ret", len(st.events))
            st.reg.pop("rcx", None)
            st.reg.pop("r11", None)
        elif mnem == "test":
            pass
        elif mnem in ("jnz", "jne", "jz", "je") and forked is None:
            # parent = taken for jnz after clone (rax != 0); child falls through with rsp = the new stack
            forked = True
            child = st
            child.events.append(("fork", mnem, ops[0] if ops else None))
            sp = getattr(st, "clone_sp", None)
            child.reg["rsp"] = sp if sp is not None else ("unk", "rsp")
        elif mnem == "pop" and len(ops) == 1:
            sp = st.reg.get("rsp")
            if sp is not None and sp[0] == "newsp":
                st.reg[st.full(ops[0])] = st.newstack.get(sp[2], ("unk", f"newstack[{sp[2]}]"))
                st.reg["rsp"] = ("newsp", sp[1], sp[2] + 8)
                st.events.append(("stack", "pop " + ops[0]))
            else:
                st.unknown.append("pop on unknown stack")
        elif mnem == "push":
            st.events.append(("stack", "push " + ops[0]))
        elif mnem == "call" and len(ops) == 1:
            st.events.append(("call", st.get(ops[0]), dict(st.reg)))
            # caller-saved registers are clobbered by the callee
            for r in list(st.reg):
                if r not in X86_CALLEE_SAVED and r != "rsp":
                    st.reg.pop(r)
        elif mnem == "ret":
            st.events.append(("ret",))
        elif mnem in ("nop",):
            pass
        else:
            st.unknown.append(lines[i - 1])
        # stack-touching operand anywhere
        if mnem not in ("pop", "push", "call", "ret") and any("rsp" in o for o in ops) and mnem != "mov":
            st.events.append(("stack", lines[i - 1]))
        elif mnem == "mov" and any("rsp" in o for o in ops):
            st.events.append(("stackref", lines[i - 1]))
    return st


# ---------------------------------------------------------------------------------------------------------------
# aarch64: only what the clone trampoline uses

def run_a64(lines):
    reg = {f"x{i}": ("arg", i + 1) for i in range(8)}
    events, unknown, newstack = [], [], {}
    sp_off = 0
    on_new_stack = False

    def val(o):
        o = o.strip().lstrip("#")
        if re.match(r"^-?\d+$", o):
            return ("const", int(o))
        o = o.replace("w", "x", 1) if re.match(r"^w\d+$", o) else o
        return reg.get(o, ("unk", o))
    for ln in lines:
        label, mnem, ops = tokenize(ln)
        if mnem is None or mnem.startswith("."):
            continue
        if mnem == "and" and len(ops) == 3 and ops[2].strip() in ("#-16", "-16"):
            reg[ops[0]] = ("newsp", reg.get(ops[1]), 0)
        elif mnem == "stp" and len(ops) >= 3:
            m = re.match(r"^\[(x\d+),\s*#(-?\d+)\]!$", ",".join(ops[2:]).strip())
            if m and reg.get(m.group(1), ("x",))[0] == "newsp":
                b = reg[m.group(1)]
                off = b[2] + int(m.group(2))
                reg[m.group(1)] = ("newsp", b[1], off)
                newstack[off] = val(ops[0])
                newstack[off + 8] = val(ops[1])
            else:
                unknown.append(ln)
        elif mnem == "ldp" and len(ops) >= 3:
            rest = ",".join(ops[2:]).replace(" ", "")
            m = re.match(r"^\[sp\],#(\d+)$", rest)
            if m and on_new_stack:
                reg[ops[0]] = newstack.get(sp_off, ("unk", "ns"))
                reg[ops[1]] = newstack.get(sp_off + 8, ("unk", "ns"))
                sp_off += int(m.group(1))
                events.append(("stack", ln))
            else:
                unknown.append(ln)
        elif mnem == "uxtw" and len(ops) == 2:
            reg[ops[0]] = val(ops[1])
        elif mnem == "eor" and len(ops) == 3 and ops[1].strip() == ops[2].strip():
            reg[ops[0]] = ("const", 0)
        elif mnem == "mov" and len(ops) == 2:
            reg[ops[0]] = val(ops[1])
        elif mnem == "svc":
            events.append(("syscall", dict(reg)))
            if reg.get("x8") == ("const", 220):
                clone_sp = reg.get("x1")
            reg["x0"] = ("ret", len(events))
        elif mnem == "cbz":
            events.append(("fork", "cbz", ops[1] if len(ops) > 1 else None))
        elif mnem == "ret":
            events.append(("ret",))
            # what follows the parent's ret is the child (label 1:)
            on_new_stack = True
            sp = locals().get("clone_sp")
            sp_off = sp[2] if sp and sp[0] == "newsp" else 0
        elif mnem == "blr" and len(ops) == 1:
            events.append(("call", val(ops[0]), dict(reg)))
            for r in list(reg):
                n = int(r[1:]) if r[1:].isdigit() else 99
                if n < 19:
                    reg.pop(r)
        else:
            unknown.append(ln)
        if mnem not in ("ldp", "stp") and any(re.search(r"\bsp\b", o) for o in ops):
            events.append(("stack", ln))
    return events, unknown, newstack
