"""Type-level witnesses (compile_fail doctests with compiling twins) run against the tree under analysis.

run(repo) -> {name: (ok, detail)} where name is the doc-tested item (e.g. C01GuardNotSend).  A `compile_fail,Exxxx` item is ok when
rustdoc reports it as failing to compile WITH that error code (nightly honours the code); a twin (`no_run`) is ok when it compiles.
The harness crate is instantiated in a scratch directory (path dependencies rewritten to `repo`, Cargo.lock copied from it) and
removed afterwards; nothing is executed (twins are no_run)."""
import os, re, shutil, subprocess, tempfile

HERE = os.path.dirname(os.path.dirname(os.path.dirname(os.path.abspath(__file__))))
SRC = os.path.join(HERE, "witness")
_cache = {}


def run(repo):
    repo = os.path.abspath(repo)
    if repo in _cache:
        return _cache[repo]
    scratch = tempfile.mkdtemp(prefix="verif-witness-")
    try:
        crate = os.path.join(scratch, "witness")
        os.makedirs(os.path.join(crate, "src"))
        shutil.copy(os.path.join(SRC, "src", "lib.rs"), os.path.join(crate, "src", "lib.rs"))
        toml = open(os.path.join(SRC, "Cargo.toml.in")).read().replace("@REPO@", repo)
        open(os.path.join(crate, "Cargo.toml"), "w").write(toml)
        if os.path.exists(os.path.join(repo, "Cargo.lock")):
            shutil.copy(os.path.join(repo, "Cargo.lock"), os.path.join(crate, "Cargo.lock"))
        env = dict(os.environ)
        env.update({"CARGO_TARGET_DIR": os.path.join(scratch, "target"), "CARGO_NET_OFFLINE": "true", "RUSTFLAGS": "-Awarnings", "RUSTDOCFLAGS": "-Awarnings"})
        env.pop("RUSTC_WORKSPACE_WRAPPER", None)
        p = subprocess.run(["cargo", "+nightly", "test", "--doc", "--offline", "--", "--test-threads", "8"], cwd=crate, env=env, stdout=subprocess.PIPE, stderr=subprocess.STDOUT, text=True)
        out = p.stdout
        res = {}
        for m in re.finditer(r"^test src/lib\.rs - (\w+) \(line \d+\)( - compile fail| - compile)? \.\.\. (\w+)", out, re.M):
            name, kind, verdict = m.group(1), (m.group(2) or "").strip(" -"), m.group(3)
            res[name] = (verdict == "ok", f"{kind or 'run'}: {verdict}")
        if not res:
            res["__build__"] = (False, out[-1500:])
        # attach failure text
        for name in list(res):
            if not res[name][0]:
                m = re.search(r"---- src/lib\.rs - %s \(line \d+\) stdout ----\n(.*?)(?=\n---- |\nfailures:)" % re.escape(name), out, re.S)
                if m:
                    res[name] = (False, res[name][1] + " | " + " ".join(m.group(1).split())[:400])
        _cache[repo] = res
        return res
    finally:
        shutil.rmtree(scratch, ignore_errors=True)


def declared():
    """{name: expected} parsed from the witness source: 'compile_fail,E0277' or 'no_run'."""
    src = open(os.path.join(SRC, "src", "lib.rs")).read()
    out = {}
    for m in re.finditer(r"/// ```(compile_fail,E\d+|no_run)\n(?:///.*\n)*?/// ```\n(?:///.*\n)*pub struct (\w+);", src):
        out[m.group(2)] = m.group(1)
    return out


def check(ck, repo, prefix, rule):
    """Obligations for all witnesses whose name starts with `prefix` (e.g. 'C01')."""
    want = {n: k for n, k in declared().items() if n.startswith(prefix)}
    got = run(repo)
    ck.floor(rule, "type-level witnesses", len(want), 1)
    if "__build__" in got:
        ck.ob(rule, "witness-crate-builds", False, detail="the witness harness did not produce any doctest result: " + got["__build__"][1][-600:])
        return
    for n, kind in sorted(want.items()):
        ok, detail = got.get(n, (False, "doctest did not run"))
        if kind == "no_run":
            ck.ob(rule, f"witness-twin-compiles|{n}", ok, detail=f"the twin of a compile-fail witness no longer compiles ({detail}): the witness next to it proves nothing any more (its path or API changed)")
        else:
            ck.ob(rule, f"witness|{n}|{kind.split(',')[1]}", ok, detail=f"a program that must not type-check against the public API now compiles, or fails for another reason than {kind.split(',')[1]} ({detail})")
