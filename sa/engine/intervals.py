"""Intervals with a symbolic length as bound (discharge rule D10).

`debug_assert!(sep_ind < len)` after a loop that only ever decrements `sep_ind` from `len - 2` holds because of a loop invariant.
This module computes, per block, for every integer local an interval [lo, hi] whose ends are `k` or `S + k` for a symbolic base S
(the canonical string of a length expression such as `len(self.0)`), by forward dataflow over the MIR with a bounded number of
rounds (a bound that is still changing after that is given up: -inf / +inf). Unsigned arithmetic is assumed not to wrap (each `+`
/ `-` has its own overflow obligation in the panic inventory). An assertion's failing edge is infeasible when its comparison
contradicts the interval at the branching block.

Bounds: (None, k) is the constant k; (S, k) is S + k; None is unknown (infinite)."""
from .dtable import canon
from .fold import fold
from .prov import strip_casts

ROUNDS = 12


def _is_len(e):
    e = strip_casts(e)
    return isinstance(e, tuple) and e and ((e[0] == "call" and (e[1] or "").endswith(("<impl [T]>::len", "UnixStr::len", "Vec::<T, A>::len"))) or e[0] in ("len", "ptrmeta"))


class Intervals:
    def __init__(self, ctx):
        self.ctx, self.cfg, self.fn = ctx, ctx.cfg, ctx.fn
        self.sym_min = {}          # S -> largest constant known to be <= S wherever the function continues (from early exits)
        self.state = None

    # ---- bounds ------------------------------------------------------------------------------------------------------------------
    def _le(self, a, b):
        """a <= b for certain?"""
        if a is None or b is None:
            return False
        if a[0] == b[0]:
            return a[1] <= b[1]
        if a[0] is None and b[0] is not None:       # k <= S + j   when  S >= k - j
            return self.sym_min.get(b[0], 0) + b[1] >= a[1]
        return False

    def _min(self, a, b):
        if a is None or b is None:
            return None
        if self._le(a, b):
            return a
        if self._le(b, a):
            return b
        # incomparable: a sound lower bound is the constant part one can defend
        c = [x[1] if x[0] is None else self.sym_min.get(x[0], 0) + x[1] for x in (a, b)]
        return (None, min(c))

    def _max(self, a, b):
        if a is None or b is None:
            return None
        if self._le(a, b):
            return b
        if self._le(b, a):
            return a
        return None

    def _add(self, a, k):
        return None if a is None else (a[0], a[1] + k)

    # ---- expressions ---------------------------------------------------------------------------------------------------------------
    def eval(self, e, st, depth=0):
        """(lo, hi) of a provenance expression in state st"""
        e = strip_casts(e)
        v = fold(e)
        if v is not None:
            return ((None, v), (None, v))
        if not isinstance(e, tuple) or depth > 12:
            return ((None, 0), None)
        if _is_len(e):
            s = canon(e)
            return ((s, 0), (s, 0))
        if e[0] == "var":
            return st.get(e[1], ((None, 0), None))
        if e[0] == "field" and isinstance(e[1], tuple) and e[1][0] in ("bin", "overflow"):
            e = e[1]
        if e[0] in ("bin", "overflow") and e[1] in ("Add", "Sub", "AddWithOverflow", "SubWithOverflow", "AddUnchecked", "SubUnchecked"):
            k = fold(e[3])
            lo, hi = self.eval(e[2], st, depth + 1)
            if k is not None:
                k = k if e[1].startswith("Add") else -k
                lo2 = self._add(lo, k)
                if lo2 is not None and lo2[0] is None and lo2[1] < 0:
                    lo2 = (None, 0)
                return (lo2 if lo2 is not None else (None, 0), self._add(hi, k))
            if e[1].startswith("Sub"):
                # x - y with y >= 0: at most x's upper bound
                return ((None, 0), hi)
        return ((None, 0), None)

    # ---- dataflow ------------------------------------------------------------------------------------------------------------------
    def _int_local(self, l):
        ty = (self.fn["locals"][l].get("ty") or "") if l < len(self.fn["locals"]) else ""
        return ty in ("usize", "u64", "u32", "u16", "u8")

    def _transfer(self, b, st):
        st = dict(st)
        blk = self.cfg.block(b)
        for i, s in enumerate(blk["stmts"]):
            if s["k"] != "assign" or s["dst"].get("p") or not self._int_local(s["dst"]["l"]):
                continue
            e = self.ctx.prov.rvalue(s["rv"], (b, i))
            # evaluate against the state at this point: a `var` operand denotes the local's current value
            st[s["dst"]["l"]] = self.eval(self._localise(s["rv"], e), st)
        t = blk["term"]
        if t["k"] == "call" and t.get("dst") and not t["dst"].get("p") and self._int_local(t["dst"]["l"]):
            e = ("call", t.get("callee"), tuple(self.ctx.args(b)), b)
            st[t["dst"]["l"]] = self.eval(e, st)
        return st

    def _localise(self, rv, e):
        """rvalues that read a whole local are evaluated from the state, not through provenance (which would merge all definitions)"""
        def op(o):
            if o.get("k") in ("copy", "move") and not o["p"].get("p"):
                return ("var", o["p"]["l"])
            if o.get("k") in ("copy", "move") and len(o["p"].get("p") or []) == 1 and o["p"]["p"][0].get("k") == "field" and o["p"]["p"][0].get("i") == 0 and ("tup", o["p"]["l"]) in self._tuples:
                return self._tuples[("tup", o["p"]["l"])]
            if o.get("k") == "const" and isinstance(o.get("value"), int):
                return ("const", o["value"], None, o.get("ty"))
            return None
        if rv["k"] == "use":
            x = op(rv["a"])
            return x if x is not None else e
        if rv["k"] == "binop" and rv.get("op") in ("Add", "Sub", "AddUnchecked", "SubUnchecked"):
            a, b2 = op(rv["a"]), op(rv["b"])
            if a is not None and b2 is not None:
                return ("bin", rv["op"], a, b2)
        return e

    def run(self):
        cfg = self.cfg
        # checked arithmetic: `_t = AddWithOverflow(x, c); assert; y = move _t.0`
        self._tuples = {}
        for b in self.fn["blocks"]:
            for s in b["stmts"]:
                if s["k"] == "assign" and not s["dst"].get("p") and s["rv"]["k"] == "binop" and str(s["rv"].get("op", "")).endswith("WithOverflow"):
                    a, c = s["rv"]["a"], s["rv"]["b"]
                    if a.get("k") in ("copy", "move") and not a["p"].get("p") and c.get("k") == "const" and isinstance(c.get("value"), int):
                        self._tuples[("tup", s["dst"]["l"])] = ("bin", s["rv"]["op"][:-len("WithOverflow")], ("var", a["p"]["l"]), ("const", c["value"], None, c.get("ty")))
        # early exits establish minimum lengths: a `len < k` / `len <= k` edge that leads only to returns
        for sb in cfg.live_blocks():
            if cfg.term(sb)["k"] != "switch":
                continue
            for e in cfg.succ[sb]:
                for f in self.ctx.edge_facts(e):
                    if f[0] == "cmp" and _is_len(f[2]) and fold(f[3]) is not None and f[1] in ("Ge", "Gt"):
                        k = fold(f[3]) + (1 if f[1] == "Gt" else 0)
                        # the complementary edge must not come back
                        other = [e2 for e2 in cfg.succ[sb] if e2 is not e]
                        if other and all(not (cfg.reachable_from(e2.dst) & cfg.reachable_from(e.dst)) - set(cfg.return_blocks()) for e2 in other):
                            s = canon(strip_casts(f[2]))
                            self.sym_min[s] = max(self.sym_min.get(s, 0), k)
        IN = {0: {}}
        visits = {}
        work = [0]
        while work:
            b = work.pop(0)
            visits[b] = visits.get(b, 0) + 1
            out = self._transfer(b, IN[b])
            for e in cfg.succ[b]:
                if e.dst in cfg.unreachable_blocks or cfg.block(e.dst).get("cleanup"):
                    continue
                st2 = self._refine(dict(out), e)
                old = IN.get(e.dst)
                if old is None:
                    IN[e.dst] = st2
                    work.append(e.dst)
                    continue
                new = {}
                for l in set(old) & set(st2):
                    lo = self._min(old[l][0], st2[l][0])
                    hi = self._max(old[l][1], st2[l][1])
                    if visits.get(e.dst, 0) > ROUNDS:
                        # still moving after many rounds: give the moving end up
                        lo = lo if lo == old[l][0] else (None, 0)
                        hi = hi if hi == old[l][1] else None
                    new[l] = (lo if lo is not None else (None, 0), hi)
                if new != old:
                    IN[e.dst] = new
                    if e.dst not in work:
                        work.append(e.dst)
        self.state = IN
        return self

    def _refine(self, st, e):
        if e.kind != "sw":
            return st
        for f in self.ctx.edge_facts(e):
            if f[0] != "cmp":
                continue
            op, a, b = f[1], strip_casts(f[2]), strip_casts(f[3])
            for x, y, o in ((a, b, op), (b, a, {"Lt": "Gt", "Le": "Ge", "Gt": "Lt", "Ge": "Le", "Eq": "Eq", "Ne": "Ne"}.get(op))):
                if not (isinstance(x, tuple) and x[0] == "var" and self._int_local(x[1])) or o is None:
                    continue
                lo, hi = st.get(x[1], ((None, 0), None))
                ylo, yhi = self.eval(y, st)
                if o in ("Lt", "Le") and yhi is not None:
                    cand = self._add(yhi, -1 if o == "Lt" else 0)
                    hi = cand if hi is None or self._le(cand, hi) else hi
                if o in ("Gt", "Ge") and ylo is not None:
                    cand = self._add(ylo, 1 if o == "Gt" else 0)
                    lo = cand if self._le(lo, cand) else lo
                if o == "Eq":
                    if ylo is not None and self._le(lo, ylo):
                        lo = ylo
                    if yhi is not None and (hi is None or self._le(yhi, hi)):
                        hi = yhi
                if o == "Ne" and ylo is not None and yhi is not None and ylo == yhi == lo:
                    lo = self._add(lo, 1)          # x != its own lower bound
                st[x[1]] = (lo, hi)
        return st

    # ---- queries -------------------------------------------------------------------------------------------------------------------
    def edge_infeasible(self, e):
        """the comparison on a switch edge contradicts the intervals at its source block"""
        st = self._transfer(e.src, self.state.get(e.src, {}))
        for f in self.ctx.edge_facts(e):
            if f[0] != "cmp":
                continue
            (alo, ahi), (blo, bhi) = self.eval(f[2], st), self.eval(f[3], st)
            op = f[1]
            if op == "Ge" and ahi is not None and blo is not None and self._le(self._add(ahi, 1), blo):      # a >= b impossible when a < b
                return True
            if op == "Gt" and ahi is not None and blo is not None and self._le(ahi, blo):
                return True
            if op == "Lt" and alo is not None and bhi is not None and self._le(bhi, alo):
                return True
            if op == "Le" and alo is not None and bhi is not None and self._le(self._add(bhi, 1), alo):
                return True
            if op == "Eq" and ((ahi is not None and blo is not None and self._le(self._add(ahi, 1), blo)) or (bhi is not None and alo is not None and self._le(self._add(bhi, 1), alo))):
                return True
        return False


def assertion_cannot_fail(ctx, panic_bb):
    """every way into the panicking block is a switch edge whose comparison the intervals contradict"""
    iv = getattr(ctx, "_intervals", None)
    if iv is None:
        iv = ctx._intervals = Intervals(ctx).run()
    cfg = ctx.cfg
    # walk back through straight-line blocks (message formatting) to the branching blocks
    targets, seen, work = [], set(), [panic_bb]
    while work:
        b = work.pop()
        if b in seen:
            continue
        seen.add(b)
        preds = [sb for sb in cfg.live_blocks() for e in cfg.succ[sb] if e.dst == b]
        if not preds:
            return False
        for sb in preds:
            edges = [e for e in cfg.succ[sb] if e.dst == b]
            if cfg.term(sb)["k"] == "switch":
                targets += edges
            elif len(cfg.succ[sb]) == 1 or cfg.term(sb)["k"] in ("goto", "call"):
                work.append(sb)
            else:
                return False
    return bool(targets) and all(iv.edge_infeasible(e) for e in targets)
