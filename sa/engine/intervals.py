"""Intervals with a symbolic length as bound (discharge rule D10).

`debug_assert!(sep_ind < len)` after a loop that only ever decrements `sep_ind` from `len - 2` holds because of a loop invariant.
This module computes, per block, for every integer local an interval [lo, hi] whose ends are `k` or `S + k` for a symbolic base S
(the canonical string of a length expression such as `len(self.0)`), by forward dataflow over the MIR with a bounded number of
rounds (a bound that is still changing after that is given up: -inf / +inf). Unsigned arithmetic is assumed not to wrap (each `+`
/ `-` has its own overflow obligation in the panic inventory). An assertion's failing edge is infeasible when its comparison
contradicts the interval at the branching block.

Bounds: (None, k) is the constant k; (S, k) is S + k; None is unknown (infinite)."""
from .dtable import canon
from .fold import fold
from .prov import strip_casts

ROUNDS = 12


def _is_len(e):
    e = strip_casts(e)
    return isinstance(e, tuple) and e and ((e[0] == "call" and (e[1] or "").endswith(("<impl [T]>::len", "UnixStr::len", "Vec::<T, A>::len"))) or e[0] in ("len", "ptrmeta"))


def _inside_unix_str(e, n=8):
    """the length of the byte slice a UnixStr wraps (never empty: it holds at least the terminator, which is what C10 establishes)"""
    e = strip_casts(e)
    if isinstance(e, tuple) and e and e[0] == "call" and (e[1] or "").endswith("UnixStr::len"):
        return True
    x = e[1] if isinstance(e, tuple) and len(e) > 1 and e[0] in ("len", "ptrmeta") else (e[2][0] if isinstance(e, tuple) and e and e[0] == "call" and e[2] else None)
    while isinstance(x, tuple) and x and n > 0:
        x = strip_casts(x)
        if x[0] in ("ref", "addr"):
            x = x[2]
        elif x[0] == "deref":
            x = x[1]
        else:
            break
        n -= 1
    return isinstance(x, tuple) and len(x) > 3 and x[0] == "field" and str(x[2]) == "0" and str(x[3]).endswith("unix_str::UnixStr")


def _sym(e):
    """the symbol a length expression stands for; UnixStr::len(x) is the length of the slice x wraps"""
    e = strip_casts(e)
    s = canon(e)
    if isinstance(e, tuple) and e and e[0] == "call" and (e[1] or "").endswith(("UnixStr::len", "UnixString::len")) and s.endswith(")"):
        s = s[:-1] + ".0)"
    return s


class Intervals:
    def __init__(self, ctx):
        self.ctx, self.cfg, self.fn = ctx, ctx.cfg, ctx.fn
        self.sym_facts = {}        # S -> [(k, edge)]: S >= k in every block the edge dominates (an early exit took the other cases away)
        self.sym_base = {}         # S -> minimum by type invariant (the slice inside a UnixStr holds at least its terminator: C10)
        self.rel = []              # (Sa, Sb, d, edge): Sa + d <= Sb in every block the edge dominates (a comparison of two lengths)
        self.cur = 0               # the block whose state is being computed / queried
        self._dom = {}
        self.state = None

    def _dominated(self, e):
        key = (e.src, e.dst, self.cur)
        if key not in self._dom:
            self._dom[key] = self.cfg.edge_dominates(e, self.cur)
        return self._dom[key]

    def smin(self, s):
        best = self.sym_base.get(s, 0)
        for k, e in self.sym_facts.get(s, ()):
            if k > best and self._dominated(e):
                best = k
        return best

    # ---- bounds ------------------------------------------------------------------------------------------------------------------
    def _le(self, a, b):
        """a <= b for certain?"""
        if a is None or b is None:
            return False
        if a[0] == b[0]:
            return a[1] <= b[1]
        if a[0] is None and b[0] is not None:       # k <= S + j   when  S >= k - j
            return self.smin(b[0]) + b[1] >= a[1]
        if a[0] is not None and b[0] is not None:
            for sa, sb, d, e in self.rel:           # Sa + d <= Sb  =>  Sa + ka <= Sb + kb  when  ka - d <= kb
                if sa == a[0] and sb == b[0] and a[1] - d <= b[1] and self._dominated(e):
                    return True
        return False

    def _min(self, a, b):
        if a is None or b is None:
            return None
        if self._le(a, b):
            return a
        if self._le(b, a):
            return b
        # incomparable: a sound lower bound is the constant part one can defend
        c = [x[1] if x[0] is None else self.smin(x[0]) + x[1] for x in (a, b)]
        return (None, max(0, min(c)))

    def _max(self, a, b):
        if a is None or b is None:
            return None
        if self._le(a, b):
            return b
        if self._le(b, a):
            return a
        return None

    def _add(self, a, k):
        return None if a is None else (a[0], a[1] + k)

    # ---- expressions ---------------------------------------------------------------------------------------------------------------
    def eval(self, e, st, depth=0):
        """(lo, hi) of a provenance expression in state st"""
        e = strip_casts(e)
        v = fold(e)
        if v is not None:
            return ((None, v), (None, v))
        if not isinstance(e, tuple) or depth > 12:
            return ((None, 0), None)
        if _is_len(e):
            s = _sym(e)
            if s not in self.sym_base:
                self.sym_base[s] = 1 if _inside_unix_str(e) else 0
            return ((s, 0), (s, 0))
        if e[0] == "var":
            return st.get(e[1], ((None, 0), None))
        if e[0] == "field" and isinstance(e[1], tuple) and e[1][0] in ("bin", "overflow"):
            e = e[1]
        if e[0] in ("bin", "overflow") and e[1] in ("Add", "Sub", "AddWithOverflow", "SubWithOverflow", "AddUnchecked", "SubUnchecked"):
            k = fold(e[3])
            lo, hi = self.eval(e[2], st, depth + 1)
            if k is not None:
                k = k if e[1].startswith("Add") else -k
                lo2 = self._add(lo, k)
                if lo2 is not None and lo2[0] is None and lo2[1] < 0:
                    lo2 = (None, 0)
                return (lo2 if lo2 is not None else (None, 0), self._add(hi, k))
            if e[1].startswith("Sub"):
                # x - y with y >= 0: at most x's upper bound
                return ((None, 0), hi)
        return ((None, 0), None)

    # ---- dataflow ------------------------------------------------------------------------------------------------------------------
    def _int_local(self, l):
        ty = (self.fn["locals"][l].get("ty") or "") if l < len(self.fn["locals"]) else ""
        return ty in ("usize", "u64", "u32", "u16", "u8")

    def _transfer(self, b, st):
        st = dict(st)
        blk = self.cfg.block(b)
        for i, s in enumerate(blk["stmts"]):
            if s["k"] != "assign" or s["dst"].get("p") or not self._int_local(s["dst"]["l"]):
                continue
            e = self.ctx.prov.rvalue(s["rv"], (b, i))
            # evaluate against the state at this point: a `var` operand denotes the local's current value
            st[s["dst"]["l"]] = self.eval(self._localise(s["rv"], e), st)
        t = blk["term"]
        if t["k"] == "call" and t.get("dst") and not t["dst"].get("p") and self._int_local(t["dst"]["l"]):
            e = ("call", t.get("callee"), tuple(self.ctx.args(b)), b)
            st[t["dst"]["l"]] = self.eval(e, st)
        return st

    def _localise(self, rv, e):
        """rvalues that read a whole local are evaluated from the state, not through provenance (which would merge all definitions)"""
        def op(o):
            if o.get("k") in ("copy", "move") and not o["p"].get("p"):
                return ("var", o["p"]["l"])
            if o.get("k") in ("copy", "move") and len(o["p"].get("p") or []) == 1 and o["p"]["p"][0].get("k") == "field" and o["p"]["p"][0].get("i") == 0 and ("tup", o["p"]["l"]) in self._tuples:
                return self._tuples[("tup", o["p"]["l"])]
            if o.get("k") == "const" and isinstance(o.get("value"), int):
                return ("const", o["value"], None, o.get("ty"))
            return None
        if rv["k"] == "use":
            x = op(rv["a"])
            return x if x is not None else e
        if rv["k"] == "binop" and rv.get("op") in ("Add", "Sub", "AddUnchecked", "SubUnchecked"):
            a, b2 = op(rv["a"]), op(rv["b"])
            if a is not None and b2 is not None:
                return ("bin", rv["op"], a, b2)
        return e

    def run(self):
        cfg = self.cfg
        # checked arithmetic: `_t = AddWithOverflow(x, c); assert; y = move _t.0`
        self._tuples = {}
        for b in self.fn["blocks"]:
            for s in b["stmts"]:
                if s["k"] == "assign" and not s["dst"].get("p") and s["rv"]["k"] == "binop" and str(s["rv"].get("op", "")).endswith("WithOverflow"):
                    a, c = s["rv"]["a"], s["rv"]["b"]
                    if a.get("k") in ("copy", "move") and not a["p"].get("p") and c.get("k") == "const" and isinstance(c.get("value"), int):
                        self._tuples[("tup", s["dst"]["l"])] = ("bin", s["rv"]["op"][:-len("WithOverflow")], ("var", a["p"]["l"]), ("const", c["value"], None, c.get("ty")))
        # early exits establish minimum lengths: past a `len >= k` edge the length is at least k (in the blocks that edge dominates)
        for sb in cfg.live_blocks():
            if cfg.term(sb)["k"] != "switch":
                continue
            for e in cfg.succ[sb]:
                for f in self.ctx.edge_facts(e):
                    if f[0] == "cmp" and _is_len(f[2]) and fold(f[3]) is not None and f[1] in ("Ge", "Gt"):
                        k = fold(f[3]) + (1 if f[1] == "Gt" else 0)
                        sx = strip_casts(f[2])
                        s = _sym(sx)
                        self.sym_base.setdefault(s, 1 if _inside_unix_str(sx) else 0)
                        self.sym_facts.setdefault(s, []).append((k, e))
                    if f[0] == "cmp" and _is_len(f[2]) and _is_len(f[3]) and f[1] in ("Le", "Lt", "Ge", "Gt"):
                        a, b2 = _sym(f[2]), _sym(f[3])
                        for s0 in ((a, f[2]), (b2, f[3])):
                            self.sym_base.setdefault(s0[0], 1 if _inside_unix_str(s0[1]) else 0)
                        if f[1] in ("Le", "Lt"):
                            self.rel.append((a, b2, 1 if f[1] == "Lt" else 0, e))
                        else:
                            self.rel.append((b2, a, 1 if f[1] == "Gt" else 0, e))
                    if f[0] == "cmp" and _is_len(f[3]) and fold(f[2]) is not None and f[1] in ("Le", "Lt"):
                        k = fold(f[2]) + (1 if f[1] == "Lt" else 0)
                        sx = strip_casts(f[3])
                        s = _sym(sx)
                        self.sym_base.setdefault(s, 1 if _inside_unix_str(sx) else 0)
                        self.sym_facts.setdefault(s, []).append((k, e))
        # IN[b] is recomputed from the current OUT of all predecessors (not accumulated), so a bound that an early round got wrong for
        # want of information does not stick; after ROUNDS visits a block's bounds may only move outwards, and a moving end is widened:
        # a lower bound to the largest small constant still below it, an upper bound to "unknown" (at loop heads)
        IN, OUT, visits = {0: {}}, {}, {}
        heads = {e.dst for e in cfg.back_edges()}        # widening only where a cycle closes; everything else is recomputed afresh
        work = [0]
        skip = lambda b: b in cfg.unreachable_blocks or cfg.block(b).get("cleanup")   # noqa: E731
        while work:
            b = work.pop(0)
            visits[b] = visits.get(b, 0) + 1
            if b != 0:
                sts = []
                for e in cfg.pred[b]:
                    if e.src in OUT and not skip(e.src):
                        self.cur = e.src
                        sts.append(self._refine(dict(OUT[e.src]), e))
                if not sts:
                    continue
                self.cur = b
                new = {}
                for l in set.intersection(*[set(x) for x in sts]):
                    lo, hi = sts[0][l]
                    for x in sts[1:]:
                        lo, hi = self._min(lo, x[l][0]), self._max(hi, x[l][1])
                    new[l] = (lo if lo is not None else (None, 0), hi)
                old = IN.get(b)
                if old is not None and ((b in heads and visits[b] > ROUNDS) or visits[b] > 6 * ROUNDS):
                    wid = {}
                    for l in set(old) & set(new):
                        lo, hi = self._min(old[l][0], new[l][0]), self._max(old[l][1], new[l][1])
                        if lo != old[l][0]:
                            c = 0 if lo is None else (lo[1] if lo[0] is None else self.smin(lo[0]) + lo[1])
                            lo = (None, max([t for t in (0, 1, 2, 3, 4, 8) if t <= c] or [0]))
                        if hi != old[l][1]:
                            hi = None
                        wid[l] = (lo if lo is not None else (None, 0), hi)
                    new = wid
                IN[b] = new
            self.cur = b
            out = self._transfer(b, IN[b])
            if OUT.get(b) != out or visits[b] == 1:
                OUT[b] = out
                for e in cfg.succ[b]:
                    if not skip(e.dst) and e.dst not in work:
                        work.append(e.dst)
            if visits[b] > 40 * ROUNDS:
                raise RuntimeError("interval analysis does not settle")
        self.state = IN
        return self

    def _refine(self, st, e):
        if e.kind != "sw":
            return st
        for f in self.ctx.edge_facts(e):
            if f[0] != "cmp":
                continue
            op, a, b = f[1], strip_casts(f[2]), strip_casts(f[3])
            for x, y, o in ((a, b, op), (b, a, {"Lt": "Gt", "Le": "Ge", "Gt": "Lt", "Ge": "Le", "Eq": "Eq", "Ne": "Ne"}.get(op))):
                if not (isinstance(x, tuple) and x[0] == "var" and self._int_local(x[1])) or o is None:
                    continue
                lo, hi = st.get(x[1], ((None, 0), None))
                ylo, yhi = self.eval(y, st)
                if o in ("Lt", "Le") and yhi is not None:
                    cand = self._add(yhi, -1 if o == "Lt" else 0)
                    hi = cand if hi is None or self._le(cand, hi) else hi
                if o in ("Gt", "Ge") and ylo is not None:
                    cand = self._add(ylo, 1 if o == "Gt" else 0)
                    lo = cand if self._le(lo, cand) else lo
                if o == "Eq":
                    if ylo is not None and self._le(lo, ylo):
                        lo = ylo
                    if yhi is not None and (hi is None or self._le(yhi, hi)):
                        hi = yhi
                if o == "Ne" and ylo is not None and yhi is not None and ylo == yhi == lo:
                    lo = self._add(lo, 1)          # x != its own lower bound
                st[x[1]] = (lo, hi)
        return st

    # ---- queries -------------------------------------------------------------------------------------------------------------------
    def edge_infeasible(self, e):
        """the comparison on a switch edge contradicts the intervals at its source block"""
        self.cur = e.src
        st = self._transfer(e.src, self.state.get(e.src, {}))
        for f in self.ctx.edge_facts(e):
            if f[0] == "truth" and f[2] in (True, 1) and isinstance(f[1], tuple) and f[1][0] == "call" and (f[1][1] or "").endswith("::is_empty") and f[1][2]:
                # `x.is_empty()` cannot hold for a length known to be at least 1
                le = ("len", f[1][2][0])
                if _inside_unix_str(le) or self.smin(_sym(le)) >= 1:
                    return True
            if f[0] != "cmp":
                continue
            (alo, ahi), (blo, bhi) = self.eval(f[2], st), self.eval(f[3], st)
            op = f[1]
            if op == "Ge" and ahi is not None and blo is not None and self._le(self._add(ahi, 1), blo):      # a >= b impossible when a < b
                return True
            if op == "Gt" and ahi is not None and blo is not None and self._le(ahi, blo):
                return True
            if op == "Lt" and alo is not None and bhi is not None and self._le(bhi, alo):
                return True
            if op == "Le" and alo is not None and bhi is not None and self._le(self._add(bhi, 1), alo):
                return True
            if op == "Eq" and ((ahi is not None and blo is not None and self._le(self._add(ahi, 1), blo)) or (bhi is not None and alo is not None and self._le(self._add(bhi, 1), alo))):
                return True
        return False


def assertion_cannot_fail(ctx, panic_bb):
    """every way into the panicking block is a switch edge whose comparison the intervals contradict"""
    iv = getattr(ctx, "_intervals", None)
    if iv is None:
        iv = ctx._intervals = Intervals(ctx).run()
    cfg = ctx.cfg
    # walk back through straight-line blocks (message formatting) to the branching blocks
    targets, seen, work = [], set(), [panic_bb]
    while work:
        b = work.pop()
        if b in seen:
            continue
        seen.add(b)
        preds = [sb for sb in cfg.live_blocks() for e in cfg.succ[sb] if e.dst == b]
        if not preds:
            return False
        for sb in preds:
            edges = [e for e in cfg.succ[sb] if e.dst == b]
            if cfg.term(sb)["k"] == "switch":
                targets += edges
            elif len(cfg.succ[sb]) == 1 or cfg.term(sb)["k"] in ("goto", "call"):
                work.append(sb)
            else:
                return False
    return bool(targets) and all(iv.edge_infeasible(e) for e in targets)
