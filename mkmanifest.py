#!/usr/bin/env python3
"""Regenerates MANIFEST.json from the rule modules present in sa/rules (claimed) and NOT_APPLICABLE below."""
import importlib, json, os, sys
HERE = os.path.dirname(os.path.abspath(__file__))
sys.path.insert(0, HERE)
BASELINE_CMD = "cd /repo && cargo nextest run --workspace --no-fail-fast --test-threads 8 --offline || cargo test --workspace --no-fail-fast --offline"
ALL = [f"C{i:02d}" for i in range(1, 21)]
NOT_APPLICABLE = {}
checks, na = [], []
for pid in ALL:
    p = os.path.join(HERE, "sa", "rules", pid.lower() + ".py")
    if not os.path.exists(p):
        na.append({"property_id": pid, "reason": NOT_APPLICABLE.get(pid, "no sound static rule built for this property yet; not claimed")})
        continue
    m = importlib.import_module(f"sa.rules.{pid.lower()}")
    checks.append({
        "property_id": pid,
        "quick_cmd": f"./check {pid} --tier quick",
        "thorough_cmd": f"./check {pid} --tier thorough",
        "evidence_file": f"/verif/evidence/{pid}.json",
        "replay_cmd_template": f"./check {pid} --replay {{path}}",
        "engine": "sa",
        "level_claimed": {"category": "other", "text": m.EXPLANATION, "design_ref": f"DESIGN.md section 6, {pid}"},
        "level_note": "Trusted base: rustc's type checking and MIR construction (nightly 1.97), the mirfacts serialiser, the engine's CFG/dominator/provenance code and the idiom tables in the rule module. Assumptions: " + "; ".join(getattr(m, "ASSUMPTIONS", [])),
        "technique": getattr(m, "TECHNIQUE", "static analysis: custom MIR-level rules (call graph, CFG must-pass/dominance, value provenance, atomics inventory) via a rustc_private driver")
                     + ("; plus type-level compile_fail witnesses with compiling twins (cargo +nightly test --doc, nothing executed)" if "witness.check" in open(p).read() else ""),
    })
man = {
    "version": 1,
    "setup_cmd": "./setup.sh",
    "hooks": {"guard": "tiny_std_verif", "enable": "none - the analysis reads private items from MIR and needs no instrumentation in /repo (guard name reserved, unused)",
              "baseline_off_cmd": BASELINE_CMD, "source_commits": [], "add_only": True},
    "engines": [{"name": "sa", "path": "/verif/sa", "serves_properties": [c["property_id"] for c in checks],
                 "kind_free_text": "static analysis: rustc_private MIR fact extractor (sa/mirfacts) + Python rule engine (sa/engine, sa/rules) + compile_fail witness crate (witness/); nothing in /repo is executed"}],
    "checks": checks,
    "not_applicable": na,
    "notes": "Every claimed property is claimed only for the structural clauses its level text lists as decided; the remaining clauses are stated as not decided. See DESIGN.md.",
}
json.dump(man, open(os.path.join(HERE, "MANIFEST.json"), "w"), indent=1)
print(f"{len(checks)} claimed, {len(na)} not applicable")
