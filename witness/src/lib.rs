//! Type-level witnesses: programs that must NOT type-check against tiny-std's public API, each paired with a twin that
//! differs only by the offending line and must compile. Run by `sa/engine/witness.py` with
//! `cargo +nightly test --doc --offline` (error codes are only honoured on nightly) on a scratch copy of this crate whose
//! path dependencies point at the tree under analysis. Twins are `no_run`: nothing here is executed.
//!
//! Naming: `<property>_<what>` must fail with the stated error code, `<property>_<what>_twin` must compile.

/// C01: a MutexGuard cannot be sent to another thread (unlock must happen on the locking thread's side of the futex protocol).
/// ```compile_fail,E0277
/// fn needs_send<T: Send>(_t: T) {}
/// let m = tiny_std::sync::Mutex::new(1u32);
/// let g = m.lock();
/// needs_send(g);
/// ```
pub struct C01GuardNotSend;

/// ```no_run
/// fn needs_send<T: Send>(_t: T) {}
/// let m = tiny_std::sync::Mutex::new(1u32);
/// let g = m.lock();
/// drop(g);
/// needs_send(m);
/// ```
pub struct C01GuardNotSendTwin;

/// C01: the protected value is reachable only through a guard.
/// ```compile_fail,E0616
/// let m = tiny_std::sync::Mutex::new(1u32);
/// let _p = &m.data;
/// ```
pub struct C01DataPrivate;

/// ```no_run
/// let m = tiny_std::sync::Mutex::new(1u32);
/// let _p = &*m.lock();
/// ```
pub struct C01DataPrivateTwin;

/// C01: the guard borrows the mutex: the mutex cannot be dropped (or moved) while a guard is alive.
/// ```compile_fail,E0505
/// let m = tiny_std::sync::Mutex::new(1u32);
/// let g = m.lock();
/// drop(m);
/// drop(g);
/// ```
pub struct C01GuardBorrowsMutex;

/// ```no_run
/// let m = tiny_std::sync::Mutex::new(1u32);
/// let g = m.lock();
/// drop(g);
/// drop(m);
/// ```
pub struct C01GuardBorrowsMutexTwin;

/// C02: a read guard gives no mutable access.
/// ```compile_fail,E0594
/// let l = tiny_std::sync::RwLock::new(1u32);
/// let mut g = l.read();
/// *g = 2;
/// ```
pub struct C02ReadGuardNotMutable;

/// ```no_run
/// let l = tiny_std::sync::RwLock::new(1u32);
/// let mut g = l.write();
/// *g = 2;
/// ```
pub struct C02ReadGuardNotMutableTwin;

/// C02: neither guard is Send.
/// ```compile_fail,E0277
/// fn needs_send<T: Send>(_t: T) {}
/// let l = tiny_std::sync::RwLock::new(1u32);
/// needs_send(l.write());
/// ```
pub struct C02WriteGuardNotSend;

/// ```compile_fail,E0277
/// fn needs_send<T: Send>(_t: T) {}
/// let l = tiny_std::sync::RwLock::new(1u32);
/// needs_send(l.read());
/// ```
pub struct C02ReadGuardNotSend;

/// ```no_run
/// fn needs_send<T: Send>(_t: T) {}
/// let l = tiny_std::sync::RwLock::new(1u32);
/// drop(l.write());
/// drop(l.read());
/// needs_send(l);
/// ```
pub struct C02GuardsNotSendTwin;

/// C02: the protected value is private.
/// ```compile_fail,E0616
/// let l = tiny_std::sync::RwLock::new(1u32);
/// let _p = &l.data;
/// ```
pub struct C02DataPrivate;

/// ```no_run
/// let l = tiny_std::sync::RwLock::new(1u32);
/// let _p = &*l.read();
/// ```
pub struct C02DataPrivateTwin;

/// C10: a UnixString cannot be built from arbitrary bytes outside rusl (the tuple constructor is private).
/// ```compile_fail,E0603
/// let _s = rusl::string::unix_str::UnixString(vec![b'a']);
/// ```
pub struct C10UnixStringConstructorPrivate;

/// ```no_run
/// let _s = rusl::string::unix_str::UnixString::try_from_vec(vec![b'a', 0]).unwrap();
/// ```
pub struct C10UnixStringConstructorPrivateTwin;

/// C10: the bytes of a UnixString cannot be reached mutably from outside (field private).
/// ```compile_fail,E0616
/// let mut s = rusl::string::unix_str::UnixString::try_from_vec(vec![b'a', 0]).unwrap();
/// s.0.pop();
/// ```
pub struct C10UnixStringBytesPrivate;

/// ```no_run
/// let s = rusl::string::unix_str::UnixString::try_from_vec(vec![b'a', 0]).unwrap();
/// let _n = s.as_slice().len();
/// ```
pub struct C10UnixStringBytesPrivateTwin;

/// C10: a literal with an interior NUL is rejected at compile time.
/// ```compile_fail,E0080
/// const S: &rusl::string::unix_str::UnixStr = rusl::string::unix_str::UnixStr::from_str_checked("a\0b\0");
/// let _ = S;
/// ```
pub struct C10LiteralInteriorNul;

/// C10: a literal without the terminator is rejected at compile time.
/// ```compile_fail,E0080
/// const S: &rusl::string::unix_str::UnixStr = rusl::string::unix_str::UnixStr::from_str_checked("ab");
/// let _ = S;
/// ```
pub struct C10LiteralNoTerminator;

/// ```no_run
/// const S: &rusl::string::unix_str::UnixStr = rusl::string::unix_str::UnixStr::from_str_checked("ab\0");
/// let _ = S;
/// ```
pub struct C10LiteralTwin;

/// C10: the literal macro validates what it builds: an interior NUL in `unix_lit!` is a compile error.
/// ```compile_fail,E0080
/// let s = rusl::unix_lit!("/etc\0/passwd");
/// let _ = s;
/// ```
pub struct C10UnixLitInteriorNul;

/// C10: ... and so is a literal that brings its own terminator (the macro appends one: two NULs).
/// ```compile_fail,E0080
/// let s = rusl::unix_lit!("/tmp\0");
/// let _ = s;
/// ```
pub struct C10UnixLitOwnTerminator;

/// ```no_run
/// let s = rusl::unix_lit!("/etc/passwd");
/// let _ = s;
/// ```
pub struct C10UnixLitTwin;

/// C12: an owned descriptor cannot be duplicated by value (no Clone / Copy), so at most one owner closes it.
/// ```compile_fail,E0599
/// let f = tiny_std::fs::File::open(tiny_std::UnixStr::from_str_checked("/dev/null\0")).unwrap();
/// let o: tiny_std::unix::fd::OwnedFd = unsafe { tiny_std::unix::fd::OwnedFd::from_raw(tiny_std::unix::fd::AsRawFd::as_raw_fd(&f)) };
/// let _p = o.clone();
/// ```
pub struct C12OwnedFdNotClone;

/// ```compile_fail,E0382
/// let f = tiny_std::fs::File::open(tiny_std::UnixStr::from_str_checked("/dev/null\0")).unwrap();
/// let o: tiny_std::unix::fd::OwnedFd = unsafe { tiny_std::unix::fd::OwnedFd::from_raw(tiny_std::unix::fd::AsRawFd::as_raw_fd(&f)) };
/// let p = o;
/// drop(o);
/// drop(p);
/// ```
pub struct C12OwnedFdNotCopy;

/// C12: the raw descriptor inside an OwnedFd cannot be swapped out from outside (field private): creating an owner is `unsafe`.
/// ```compile_fail,E0616
/// let f = tiny_std::fs::File::open(tiny_std::UnixStr::from_str_checked("/dev/null\0")).unwrap();
/// let o: tiny_std::unix::fd::OwnedFd = unsafe { tiny_std::unix::fd::OwnedFd::from_raw(tiny_std::unix::fd::AsRawFd::as_raw_fd(&f)) };
/// let _raw = o.0;
/// ```
pub struct C12OwnedFdFieldPrivate;

/// C12: making an owner out of a raw descriptor needs `unsafe`.
/// ```compile_fail,E0133
/// let f = tiny_std::fs::File::open(tiny_std::UnixStr::from_str_checked("/dev/null\0")).unwrap();
/// let _o = tiny_std::unix::fd::OwnedFd::from_raw(tiny_std::unix::fd::AsRawFd::as_raw_fd(&f));
/// ```
pub struct C12OwnerFromRawIsUnsafe;

/// ```no_run
/// let f = tiny_std::fs::File::open(tiny_std::UnixStr::from_str_checked("/dev/null\0")).unwrap();
/// let o: tiny_std::unix::fd::OwnedFd = unsafe { tiny_std::unix::fd::OwnedFd::from_raw(tiny_std::unix::fd::AsRawFd::as_raw_fd(&f)) };
/// let p = o;
/// core::mem::forget(p);
/// ```
pub struct C12OwnedFdTwin;

/// C17: the ring cursors cannot be moved from outside rusl.
/// ```compile_fail,E0616
/// fn f(u: &mut rusl::platform::IoUring) {
///     let _q = &mut u.submission_queue;
/// }
/// ```
pub struct C17SubmissionQueuePrivate;

/// ```compile_fail,E0616
/// fn f(u: &mut rusl::platform::IoUring) {
///     let _q = &mut u.completion_queue;
/// }
/// ```
pub struct C17CompletionQueuePrivate;

/// ```no_run
/// fn f(u: &mut rusl::platform::IoUring) {
///     let _fd = u.fd;
///     let _w = u.needs_wakeup();
/// }
/// ```
pub struct C17QueuesPrivateTwin;
